"""C04 — library calls do not modify the objects handed to them.

Tie to the source (translator): harness/translate_alias.py extracts the alias skeleton of the solver
constructors / solver functions / result constructors from the Python source on every run; the Lean
analysis `Qv.C04.analyze` (proved sound: Qv.C04.no_input_mutation / only_receiver_changes) must accept
each; the accepted ones are re-checked by the kernel (`decide`) in Qv/Gen/AliasIR.lean.
Correspondence: what the analysis predicts (no input touched) is compared with what a deep snapshot of
the inputs observes around the real call, for every extracted function that the table exercises; the
assumed-pure call summaries are thereby validated.
Oracle / failing-input search: the snapshot table — public constructors, operators, solver classes and
functions x input forms (constant / time-dependent, operator / superoperator, Dense C / Dense F / CSR /
Dia, ket / dm / operator-ket, list / array tlist, option and argument dictionaries) x reuse patterns
(call twice, second solver from the same objects, run with new args, merge twice): inputs equal their
snapshot, repeated calls give the same answer.
"""
import copy
import hashlib
import json
import os
import sys
import warnings

import numpy as np

sys.path.insert(0, os.path.dirname(os.path.abspath(__file__)))
import core
import translate_alias as ta

PID = "C04"
PROBE_T = (0.0, 0.37, 1.1)


# ----------------------------------------------------------------- deep snapshots
def _h(arr):
    a = np.ascontiguousarray(np.asarray(arr))
    return (str(a.dtype), a.shape, hashlib.sha1(a.tobytes()).hexdigest())


def snap(o, depth=0, seen=None):
    import qutip
    from qutip.core.cy.coefficient import Coefficient
    from qutip.core.data import Data
    seen = seen if seen is not None else set()
    if o is None or isinstance(o, (bool, int, float, complex, str, bytes)):
        return o
    if isinstance(o, (np.generic,)):
        return o.item()
    if id(o) in seen or depth > 7:
        return ("...",)
    if isinstance(o, np.ndarray):
        if o.dtype == object:
            return ("objarray", tuple(snap(x, depth + 1, seen) for x in o.ravel()))
        return ("ndarray",) + _h(o)
    if isinstance(o, Data):
        return ("Data", type(o).__name__, o.shape, _h(o.to_array()))
    if isinstance(o, qutip.Qobj):
        return ("Qobj", repr(o.dims), type(o.data).__name__, getattr(o, "superrep", None), _h(o.data.to_array()))
    if isinstance(o, qutip.QobjEvo):
        vals = []
        for t in PROBE_T:
            try:
                vals.append(_h(o(t).data.to_array()))
            except Exception as e:          # noqa
                vals.append(("raises", type(e).__name__))
        return ("QobjEvo", repr(o.dims), o.num_elements, repr(o), tuple(vals))
    if isinstance(o, Coefficient):
        vals = []
        for t in PROBE_T:
            try:
                vals.append(complex(o(t)))
            except Exception as e:          # noqa
                vals.append(("raises", type(e).__name__))
        return ("Coefficient", type(o).__name__, tuple(vals))
    seen = seen | {id(o)}
    if isinstance(o, dict):
        return ("dict", tuple(sorted(((repr(k), snap(v, depth + 1, seen)) for k, v in o.items()), key=lambda kv: kv[0])))
    if isinstance(o, (list, tuple)):
        return (type(o).__name__, tuple(snap(x, depth + 1, seen) for x in o))
    if isinstance(o, (set, frozenset)):
        return ("set", tuple(sorted(repr(x) for x in o)))
    if isinstance(o, np.random.SeedSequence):
        return ("SeedSequence", repr(o.entropy), tuple(o.spawn_key), o.n_children_spawned)
    if callable(o) and not hasattr(o, "__dict__"):
        return ("callable", getattr(o, "__name__", type(o).__name__))
    if hasattr(o, "__dict__"):
        d = {k: v for k, v in vars(o).items()}
        return ("obj", type(o).__name__, snap(d, depth + 1, seen))
    if callable(o):
        return ("callable", getattr(o, "__name__", type(o).__name__))
    return ("repr", repr(o)[:80])


def view(out, depth=0):
    """what a call returned, for 'the same answer the second time' (numbers are compared to 1e-9)"""
    import qutip
    from qutip.core.data import Data
    if isinstance(out, (list, tuple)):
        return tuple(view(x, depth + 1) for x in out)
    if isinstance(out, dict):
        return tuple((repr(k), view(v, depth + 1)) for k, v in sorted(out.items(), key=lambda kv: repr(kv[0])))
    if isinstance(out, qutip.Qobj):
        return ("Qobj", repr(out.dims), out.full())
    if isinstance(out, Data):
        return ("Data", out.to_array())
    if isinstance(out, np.ndarray) and out.dtype != object:
        return out
    if isinstance(out, (int, float, complex, np.generic)) and not isinstance(out, bool):
        return np.asarray(out)
    if hasattr(out, "times") and hasattr(out, "expect") and depth < 3:
        v = [("times", np.asarray(out.times, dtype=float)), ("expect", tuple(np.asarray(e) for e in out.expect))]
        for attr in ("states", "final_state", "average_states", "runs_states", "col_times", "col_which", "measurement", "dW",
                     "average_expect", "std_expect", "runs_expect", "average_final_state", "num_trajectories"):
            try:
                x = getattr(out, attr)
            except Exception:            # noqa
                continue
            v.append((attr, view(x, depth + 1)))
        return ("result", tuple(v))
    return snap(out)


def same_view(a, b):
    if isinstance(a, np.ndarray) or isinstance(b, np.ndarray):
        if not (isinstance(a, np.ndarray) and isinstance(b, np.ndarray)) or a.shape != b.shape:
            return False
        if a.dtype.kind in "fc" or b.dtype.kind in "fc":
            return bool(np.allclose(a, b, rtol=1e-7, atol=1e-9, equal_nan=True))
        return bool(np.array_equal(a, b))
    if isinstance(a, tuple) and isinstance(b, tuple):
        return len(a) == len(b) and all(same_view(x, y) for x, y in zip(a, b))
    return a == b


def diff_paths(a, b, path=""):
    if type(a) is not type(b) or (isinstance(a, tuple) and len(a) != len(b)):
        return [path or "<root>"]
    if isinstance(a, tuple):
        out = []
        for i, (x, y) in enumerate(zip(a, b)):
            out += diff_paths(x, y, f"{path}/{x[0] if isinstance(x, tuple) and x and isinstance(x[0], str) and len(x[0]) < 40 else i}")
            if len(out) > 3:
                break
        return out
    return [] if (a == b or (a != a and b != b)) else [path or "<root>"]


# ----------------------------------------------------------------- input forms
FORMATS = ["dense", "dense_f", "csr", "dia"]


def to_fmt(q, fmt):
    import qutip
    if fmt == "dense_f":
        arr = np.asfortranarray(q.full())
        return qutip.Qobj(qutip.data.Dense(arr, copy=False), dims=q.dims, copy=False)
    return q.to({"dense": "dense", "csr": "csr", "dia": "dia"}[fmt])


def f_sin(t, w=1.3):
    return np.sin(w * t)


def f_args(t, args):
    return np.cos(args["w"] * t)


def f_spec(w):
    return 0.1 * (w > 0)


def system(fmt, n=2):
    import qutip
    if n == 2:
        H0 = to_fmt(0.5 * qutip.sigmaz() + 0.3 * qutip.sigmax(), fmt)
        H1 = to_fmt(qutip.sigmax(), fmt)
        c = [to_fmt(0.4 * qutip.sigmam(), fmt), to_fmt(0.2 * qutip.sigmaz(), fmt)]
        psi = (qutip.basis(2, 0) + 0.5j * qutip.basis(2, 1)).unit()
        e = [to_fmt(qutip.sigmaz(), fmt), to_fmt(qutip.sigmay(), fmt)]
    else:
        a = qutip.destroy(n)
        H0 = to_fmt(a.dag() * a + 0.2 * (a + a.dag()), fmt)
        H1 = to_fmt(a + a.dag(), fmt)
        c = [to_fmt(0.3 * a, fmt)]
        psi = qutip.coherent(n, 0.6)
        e = [to_fmt(a.dag() * a, fmt)]
    return H0, H1, c, psi, e


def h_forms(H0, H1, sup=False):
    """name -> builder of a Hamiltonian / Liouvillian in one of the accepted forms"""
    import qutip
    lift = (lambda x: qutip.liouvillian(x)) if sup else (lambda x: x)
    tl = np.linspace(0, 1.2, 7)
    return {
        "qobj": lambda: lift(H0),
        "qobjevo_func": lambda: qutip.QobjEvo([lift(H0), [lift(H1), f_sin]], args={"w": 1.3}),
        "qobjevo_dictfunc": lambda: qutip.QobjEvo([lift(H0), [lift(H1), f_args]], args={"w": 0.7}),
        "qobjevo_array": lambda: qutip.QobjEvo([lift(H0), [lift(H1), np.sin(tl)]], tlist=tl),
        "list": lambda: [lift(H0), [lift(H1), f_sin]],
        "qobjevo_const": lambda: qutip.QobjEvo(lift(H0)),
    }


def safe_snap(v):
    """a snapshot even of an object left inconsistent by the call (data that no longer fits its dims, ...)"""
    try:
        return snap(v)
    except Exception as e:      # noqa
        return ("inconsistent-object", type(e).__name__, str(e)[:120])


class Raised:
    def __init__(self, kind):
        self.kind = kind


class Table:
    def __init__(self, rep, rng):
        self.rep, self.rng = rep, rng
        self.viol = {}
        self.raised = {}
        self.observed = {}       # IR name -> mutated? (for the correspondence with the analysis)

    def check(self, name, inputs, call, targets=(), repeat=True, detail=None):
        """inputs: dict of caller-owned objects; call(inputs) performs the library call(s)"""
        rep = self.rep
        rep.evaluations += 1
        rep.count("call=" + name.split(":")[0])
        before = {k: safe_snap(v) for k, v in inputs.items()}
        try:
            with warnings.catch_warnings():
                warnings.simplefilter("ignore")
                with core.time_limit(120):
                    out1 = call(inputs)
        except core.CaseTimeout:
            raise
        except Exception as e:
            rep.count("raises=" + type(e).__name__)
            self.raised.setdefault(name.split(":")[0] + ":" + type(e).__name__, str(e)[:150] + " @ " + name)
            out1 = Raised(type(e).__name__)
        after = {k: safe_snap(v) for k, v in inputs.items()}
        changed = [k for k in inputs if before[k] != after[k]]
        for t in targets:
            self.observed[t] = self.observed.get(t, False) or bool(changed)
        if changed:
            k = changed[0]
            where = diff_paths(before[k], after[k])
            sig = f"mutates:{name.split(':')[0]}:{k}"
            if sig not in self.viol:
                self.viol[sig] = (f"{name}: the call changed its input `{k}` (at {where[:3]})", {"call": name, "input": k, "where": where[:5], "detail": detail})
            return
        if repeat and not isinstance(out1, Raised):
            try:
                with warnings.catch_warnings():
                    warnings.simplefilter("ignore")
                    with core.time_limit(120):
                        out2 = call(inputs)
            except core.CaseTimeout:
                raise
            except Exception as e:
                out2 = Raised(type(e).__name__)
            try:
                v1, v2 = view(out1), view(out2)
                differs = not same_view(v1, v2)
            except Exception:       # noqa  (a result that cannot even be read back)
                differs = True
            if differs:
                sig = f"repeat-differs:{name.split(':')[0]}"
                if sig not in self.viol:
                    self.viol[sig] = (f"{name}: repeating the call with the same objects gives a different answer", {"call": name, "detail": detail})
            after2 = {k: safe_snap(v) for k, v in inputs.items()}
            changed = [k for k in inputs if before[k] != after2[k]]
            if changed:
                sig = f"mutates:{name.split(':')[0]}:{changed[0]}"
                if sig not in self.viol:
                    self.viol[sig] = (f"{name}: the second call changed its input `{changed[0]}`", {"call": name, "input": changed[0], "detail": detail})


# ----------------------------------------------------------------- the table
def qobj_ops(T, fmts):
    import qutip
    for fa in fmts:
        for fb in fmts:
            H0, H1, c, psi, e = system(fa)
            B = to_fmt(qutip.sigmay() + 0.5 * qutip.sigmap(), fb)
            Bt = to_fmt(qutip.sigmay() + 0.25j * qutip.sigmap() + 0.1 * qutip.sigmaz(), fb).trans()
            ket = to_fmt(psi, fb if fb != "dia" else "dense")
            dm = to_fmt(qutip.ket2dm(psi), fb)
            ops = {
                "add": lambda d: d["a"] + d["b"], "sub": lambda d: d["a"] - d["b"], "matmul": lambda d: d["a"] @ d["b"],
                "mul": lambda d: d["a"] * d["b"], "scal": lambda d: (2j * d["a"], d["a"] * 0.5, d["a"] / 3), "neg": lambda d: -d["a"],
                "pow": lambda d: d["a"] ** 3, "dag": lambda d: (d["a"].dag(), d["a"].conj(), d["a"].trans()),
                "scalars": lambda d: (d["a"].tr(), d["a"].norm(), d["a"].norm("fro"), d["a"].isherm, d["a"].isunitary),
                "expm": lambda d: d["a"].expm(), "sqrtm": lambda d: d["dm"].sqrtm(), "inv": lambda d: d["b"].inv() if False else d["a"].inv(),
                "unit": lambda d: (d["a"].unit(), d["ket"].unit()), "eig": lambda d: d["a"].eigenstates()[0],
                "groundstate": lambda d: d["a"].groundstate()[0], "ket_apply": lambda d: d["a"] @ d["ket"], "overlap": lambda d: d["ket"].overlap(d["ket"]),
                "expect": lambda d: (qutip.expect(d["a"], d["ket"]), qutip.expect(d["a"], d["dm"]), qutip.expect([d["a"], d["b"]], [d["ket"], d["dm"]])),
                "tensor": lambda d: (qutip.tensor(d["a"], d["b"]), qutip.tensor([d["a"], d["b"]])), "ptrace": lambda d: qutip.tensor(d["a"], d["b"]).ptrace(0),
                "permute": lambda d: qutip.tensor(d["a"], d["b"]).permute([1, 0]), "proj": lambda d: (d["ket"].proj(), qutip.ket2dm(d["ket"])),
                "to": lambda d: (d["a"].to("csr"), d["a"].to("dense"), d["a"].to("dia")), "copy": lambda d: (d["a"].copy(), qutip.Qobj(d["a"]), qutip.Qobj(d["a"], copy=False)),
                "tidyup_copy": lambda d: d["a"].copy().tidyup(), "trunc_neg": lambda d: d["dm"].trunc_neg(), "contract": lambda d: qutip.tensor(d["a"], qutip.qeye(1)).contract(),
                "super": lambda d: (qutip.spre(d["a"]), qutip.spost(d["a"]), qutip.sprepost(d["a"], d["b"]), qutip.liouvillian(d["a"], [d["b"]]), qutip.lindblad_dissipator(d["a"], d["b"])),
                "stack": lambda d: (qutip.operator_to_vector(d["dm"]), qutip.vector_to_operator(qutip.operator_to_vector(d["dm"]))),
                "super_apply": lambda d: qutip.liouvillian(d["a"], [d["b"]])(d["dm"]),
                "reps": lambda d: (qutip.to_choi(qutip.sprepost(d["a"], d["a"].dag())), qutip.to_kraus(qutip.sprepost(d["a"], d["a"].dag())), qutip.to_chi(qutip.sprepost(d["a"], d["a"].dag()))),
                "data_ops": lambda d: (qutip.data.add(d["a"].data, d["b"].data), qutip.data.matmul(d["a"].data, d["b"].data), qutip.data.kron(d["a"].data, d["b"].data),
                                       qutip.data.column_stack(d["dm"].data), qutip.data.reshape(d["a"].data, 1, 4), qutip.data.transpose(d["a"].data),
                                       qutip.data.expect(d["a"].data, d["ket"].data) if d["ket"].shape[1] == 1 else 0, qutip.data.trace(d["a"].data)),
                "eq": lambda d: (d["a"] == d["b"], d["a"] == d["a"].copy()),
                # operands that are not Hermitian (LAPACK's general drivers), also as the transposed view of a stored matrix
                "eig_general": lambda d: (d["b"].eigenenergies(), d["b"].eigenstates()[0], d["bt"].eigenenergies(), d["bt"].eigenstates()[0],
                                          qutip.data.eigs(d["b"].data, False, False) if type(d["b"].data).__name__ != "Dia" else 0),
                "functions_general": lambda d: (d["b"].expm(), d["b"].inv(), d["b"].sqrtm(), d["b"].norm("tr"), d["b"].norm("max"), d["bt"].expm(), d["bt"].inv(),
                                                d["b"].logm(), d["b"].cosm(), d["b"].sinm(), d["b"].unit(), d["b"].tidyup(1e-14) if False else d["b"].copy().tidyup(1e-14)),
                "views": lambda d: (d["bt"] + d["a"], d["bt"] @ d["a"], d["bt"].dag(), d["bt"].tr(), d["bt"].full(), d["bt"].data_as("ndarray") if type(d["bt"].data).__name__ == "Dense" else 0),
            }
            for nm, fn in ops.items():
                T.check(f"Qobj.{nm}:{fa}/{fb}", {"a": H0, "b": B, "bt": Bt, "ket": ket, "dm": dm}, fn, detail={"fa": fa, "fb": fb})


def qobjevo_ops(T, fmts):
    import qutip
    for fmt in fmts:
        H0, H1, c, psi, e = system(fmt)
        for fname, mk in h_forms(H0, H1).items():
            if fname in ("list", "qobj"):
                continue
            for sfmt in ("dense", "csr"):
                Q1, Q2 = mk(), qutip.QobjEvo([H1, [H0, f_sin]], args={"w": 0.4})
                ket = psi.to(sfmt)
                dm = qutip.ket2dm(psi).to(sfmt)
                vec = qutip.operator_to_vector(dm)
                inputs = {"Q1": Q1, "Q2": Q2, "ket": ket, "dm": dm, "vec": vec, "op": H1, "args": {"w": 2.1}}
                ops = {
                    "add": lambda d: (d["Q1"] + d["Q2"], d["Q1"] + d["op"], d["op"] + d["Q1"], d["Q1"] - d["Q2"]),
                    "mul": lambda d: (d["Q1"] * 2, 2j * d["Q1"], d["Q1"] @ d["Q2"], d["Q1"] @ d["op"], d["op"] @ d["Q1"], -d["Q1"]),
                    "call": lambda d: (d["Q1"](0.4), d["Q1"](0.4, w=2.0), d["Q1"](0.4, d["args"])),
                    "dag": lambda d: (d["Q1"].dag(), d["Q1"].conj(), d["Q1"].trans()),
                    "matmul_state": lambda d: (d["Q1"].matmul(0.4, d["ket"]), d["Q1"].matmul(0.4, d["dm"])),
                    "expect": lambda d: (d["Q1"].expect(0.4, d["ket"]), d["Q1"].expect(0.4, d["dm"])),
                    "expect_super": lambda d: qutip.liouvillian(d["Q1"]).expect(0.4, d["vec"]) if False else qutip.QobjEvo(qutip.liouvillian(d["Q1"])).matmul(0.4, d["vec"]),
                    "expect_data": lambda d: (d["Q1"].expect_data(0.4, d["ket"].data), d["Q1"].expect_data(0.4, d["dm"].data), d["Q1"].matmul_data(0.4, d["ket"].data)),
                    "copy": lambda d: (qutip.QobjEvo(d["Q1"]), d["Q1"].copy(), qutip.QobjEvo(d["Q1"], args=d["args"])),
                    "to": lambda d: (d["Q1"].to("csr"), d["Q1"].to("dense")),
                    "linear_map": lambda d: (d["Q1"].linear_map(qutip.spre), qutip.liouvillian(d["Q1"], [d["op"]]), qutip.lindblad_dissipator(d["Q1"])),
                    "tensor": lambda d: qutip.tensor(d["Q1"], d["Q2"]),
                    "iadd_on_copy": lambda d: _iadd_copy(d),
                    "compress_copy": lambda d: d["Q1"].copy().compress() if hasattr(d["Q1"].copy(), "compress") else None,
                    "arguments_copy": lambda d: _args_copy(d),
                    # tidying up a copy, or an object built from this one and from a plain operator, with a threshold that removes
                    # entries of order one: the originals keep theirs
                    "tidyup_on_copies": lambda d: (d["Q1"].copy().tidyup(0.6), qutip.QobjEvo(d["Q1"]).tidyup(0.6), (d["Q1"] + d["Q2"]).tidyup(0.6), (d["op"] + d["Q1"]).tidyup(0.6)),
                }
                for nm, fn in ops.items():
                    T.check(f"QobjEvo.{nm}:{fmt}/{fname}/{sfmt}", inputs, fn, detail={"fmt": fmt, "form": fname, "state": sfmt})


def super_expect_ops(T):
    """superoperator QobjEvo with one and several terms: expect / matmul on density matrices in every storage and memory order"""
    import qutip
    H0, H1, c, psi, e = system("csr")
    L0 = qutip.liouvillian(H0, c)
    forms = {"one-constant": lambda: qutip.QobjEvo(L0), "one-pair": lambda: qutip.QobjEvo([[L0, f_sin]], args={"w": 1.3}),
             "function": lambda: qutip.QobjEvo(lambda t: L0 * (1 + t)), "two-terms": lambda: qutip.QobjEvo([L0, [qutip.liouvillian(H1), f_sin]], args={"w": 1.3})}
    for fname, mk in forms.items():
        for sfmt in ("dense", "dense_f", "csr", "dia"):
            rho = to_fmt(qutip.ket2dm(psi), sfmt).copy()
            vec_ = qutip.operator_to_vector(rho)
            inputs = {"L": mk(), "rho": rho, "vec": vec_, "ops": list(e)}
            T.check(f"QobjEvo.super-expect:{fname}/{sfmt}", inputs,
                    lambda d: (d["L"].expect(0.4, d["rho"]), d["L"].expect(0.4, d["vec"]), d["L"].matmul(0.4, d["vec"]), d["L"].matmul(0.4, d["rho"]) if False else 0,
                               d["L"].expect_data(0.4, d["rho"].data), qutip.expect(d["ops"][0], d["rho"])), detail={"form": fname, "state": sfmt})
            T.check(f"mesolve-e_ops-super:{fname}/{sfmt}", {"L": L0, "E": mk(), "rho": rho, "tlist": np.linspace(0, 0.6, 4)},
                    lambda d: qutip.mesolve(d["L"], d["rho"], d["tlist"], e_ops=[d["E"]], options={"store_states": True}), detail={"form": fname, "state": sfmt})


def misc_ops(T, tier):
    """the rest of the public functions that take quantum objects: each leaves its inputs alone and repeats its answer"""
    import qutip
    for fmt in ("csr", "dense"):
        H0, H1, c, psi, e = system(fmt)
        rho = to_fmt(qutip.ket2dm(psi), fmt)
        rho2 = to_fmt(qutip.ket2dm((qutip.basis(2, 0) - 0.3 * qutip.basis(2, 1)).unit()), fmt)
        Htd = lambda: qutip.QobjEvo([H0, [H1, f_sin]], args={"w": 1.3})       # noqa: E731
        tl = np.linspace(0, 1.0, 5)
        two = qutip.tensor(rho, rho2)
        bell = qutip.ket2dm(qutip.bell_state("00"))
        U = to_fmt(qutip.rand_unitary(2, seed=3), fmt)
        S = qutip.to_super(U)
        calls = {
            "scattering_probability": ({"H": H0, "psi": psi, "c_ops": [c[0]], "tlist": tl}, lambda d: qutip.scattering_probability(d["H"], d["psi"], 1, d["c_ops"], d["tlist"])),
            "scattering_probability-evo": ({"H": Htd(), "psi": psi, "c_ops": [c[0]], "tlist": tl}, lambda d: qutip.scattering_probability(d["H"], d["psi"], 1, d["c_ops"], d["tlist"])),
            "temporal_scattered_state-evo": ({"H": Htd(), "psi": psi, "c_ops": [c[0]], "tlist": tl}, lambda d: qutip.temporal_scattered_state(d["H"], d["psi"], 1, d["c_ops"], d["tlist"])),
            "temporal_basis_vector": ({"tlist": tl}, lambda d: qutip.temporal_basis_vector([[1], []], len(d["tlist"]))),
            "Propagator-call-kwargs": ({"H": qutip.QobjEvo([H0, [H1, f_sin]], args={"w": 1.3}), "args": {"w": 1.3}},
                                       lambda d: _prop_kwargs(d)),
            "propagator-args": ({"H": qutip.QobjEvo([H0, [H1, f_sin]], args={"w": 1.3}), "args": {"w": 0.4}, "tlist": tl, "c_ops": list(c)},
                                lambda d: (qutip.propagator(d["H"], d["tlist"], d["c_ops"], args=d["args"]), qutip.propagator(d["H"], 0.5, args=d["args"]))),
            "propagator_steadystate": ({"U": qutip.propagator(H0, 1.0, list(c))}, lambda d: qutip.propagator_steadystate(d["U"])),
            "correlation_2op_2t": ({"H": H0, "rho": rho, "tlist": tl[:3], "taulist": tl[:3], "c_ops": list(c), "a": e[0], "b": e[1]},
                                   lambda d: qutip.correlation_2op_2t(d["H"], d["rho"], d["tlist"], d["taulist"], d["c_ops"], d["a"], d["b"])),
            "correlation_3op_1t": ({"H": H0, "rho": rho, "taulist": tl[:3], "c_ops": list(c), "a": e[0], "b": e[1]},
                                   lambda d: qutip.correlation_3op_1t(d["H"], d["rho"], d["taulist"], d["c_ops"], d["a"], d["b"], d["a"])),
            "correlation-td": ({"H": Htd(), "rho": rho, "taulist": tl[:3], "c_ops": list(c), "a": e[0], "b": e[1], "args": {"w": 0.7}},
                               lambda d: qutip.correlation_2op_1t(d["H"], d["rho"], d["taulist"], d["c_ops"], d["a"], d["b"], args=d["args"])),
            "coherence_functions": ({"H": H0, "rho": rho, "taulist": tl[:3], "c_ops": list(c), "a": c[0]},
                                    lambda d: (qutip.coherence_function_g1(d["H"], d["rho"], d["taulist"], d["c_ops"], d["a"]), qutip.coherence_function_g2(d["H"], d["rho"], d["taulist"], d["c_ops"], d["a"]))),
            "spectrum": ({"H": H0, "wlist": np.linspace(-1, 1, 5), "c_ops": list(c), "a": e[0], "b": e[1]},
                         lambda d: qutip.spectrum(d["H"], d["wlist"], d["c_ops"], d["a"], d["b"])),
            "spectrum-pi": ({"H": H0, "wlist": np.linspace(-1, 1, 5) + 0.013, "c_ops": list(c), "a": e[0], "b": e[1]},
                            lambda d: qutip.spectrum(d["H"], d["wlist"], d["c_ops"], d["a"], d["b"], solver="pi")),
            "spectrum_correlation_fft": ({"tlist": np.linspace(0, 4, 16), "y": np.cos(np.linspace(0, 4, 16)).astype(complex)}, lambda d: qutip.spectrum_correlation_fft(d["tlist"], d["y"])),
            "spectrum_correlation_fft-inverse": ({"tlist": np.linspace(0, 4, 16), "y": (np.cos(np.linspace(0, 4, 16)) + 0.5j * np.sin(np.linspace(0, 4, 16))).astype(complex)},
                                                 lambda d: qutip.spectrum_correlation_fft(d["tlist"], d["y"], inverse=True)),
            "spectrum_correlation_fft-strided": ({"tlist": np.linspace(0, 4, 16), "y": (np.exp(-0.3j * np.arange(32)) * np.exp(-0.1 * np.arange(32)))[::2]},
                                                 lambda d: (qutip.spectrum_correlation_fft(d["tlist"], d["y"], inverse=True), qutip.spectrum_correlation_fft(d["tlist"], d["y"]))),
            "countstat": ({"L": qutip.liouvillian(H0, c), "c_ops": list(c), "wlist": np.array([0.0, 0.5])},
                          lambda d: (qutip.countstat_current(d["L"], d["c_ops"]), qutip.countstat_current_noise(d["L"], d["c_ops"], wlist=d["wlist"]))),
            "entropies": ({"rho": rho, "two": two, "sigma": rho2},
                          lambda d: (qutip.entropy_vn(d["rho"]), qutip.entropy_linear(d["rho"]), qutip.entropy_mutual(d["two"], 0, 1), qutip.entropy_conditional(d["two"], 0),
                                     qutip.entropy_relative(d["rho"], d["sigma"]), qutip.concurrence(d["two"]), qutip.negativity(d["two"], 0), qutip.partial_transpose(d["two"], [0, 1]))),
            "metrics": ({"rho": rho, "sigma": rho2, "U": U, "S": S, "psi": psi},
                        lambda d: (qutip.fidelity(d["rho"], d["sigma"]), qutip.tracedist(d["rho"], d["sigma"]), qutip.hilbert_dist(d["rho"], d["sigma"]), qutip.bures_dist(d["rho"], d["sigma"]),
                                   qutip.bures_angle(d["rho"], d["sigma"]), qutip.hellinger_dist(d["rho"], d["sigma"]), qutip.fidelity(d["psi"], d["rho"]), qutip.process_fidelity(d["S"], d["U"]),
                                   qutip.average_gate_fidelity(d["S"]), qutip.unitarity(d["S"]), qutip.dnorm(d["S"]) if False else 0)),
            "distributions": ({"rho": to_fmt(qutip.coherent_dm(4, 0.5), fmt), "xvec": np.linspace(-2, 2, 5)},
                              lambda d: (qutip.wigner(d["rho"], d["xvec"], d["xvec"]), qutip.qfunc(d["rho"], d["xvec"], d["xvec"]), qutip.wigner(d["rho"], d["xvec"], d["xvec"], method="laguerre"))),
            "spin_distributions": ({"rho": rho, "theta": np.linspace(0, np.pi, 3), "phi": np.linspace(0, 2 * np.pi, 3)},
                                   lambda d: (qutip.spin_q_function(d["rho"], d["theta"], d["phi"]), qutip.spin_wigner(d["rho"], d["theta"], d["phi"]))),
            "measurement": ({"rho": rho, "psi": psi, "op": e[0], "ops": [qutip.basis(2, 0).proj(), qutip.basis(2, 1).proj()]},
                            lambda d: (qutip.measurement.measurement_statistics(d["rho"], d["op"]), qutip.measurement.measurement_statistics(d["psi"], d["ops"]),
                                       qutip.measurement.measurement_statistics_observable(d["psi"], d["op"]))),
            "variance-expect": ({"rho": rho, "psi": psi, "op": e[0], "ops": list(e), "states": [psi, rho]},
                                lambda d: (qutip.variance(d["op"], d["rho"]), qutip.expect(d["ops"], d["states"]), qutip.expect(d["op"], d["states"]))),
            "simdiag": ({"ops": [to_fmt(qutip.sigmaz(), fmt), to_fmt(qutip.qeye(2), fmt)]}, lambda d: qutip.simdiag(d["ops"])),
            "continuous_variables": ({"rho": to_fmt(qutip.tensor(qutip.coherent_dm(3, 0.3), qutip.thermal_dm(3, 0.2)), fmt), "a": [qutip.tensor(qutip.destroy(3), qutip.qeye(3)), qutip.tensor(qutip.qeye(3), qutip.destroy(3))]},
                                     lambda d: (qutip.correlation_matrix_field(d["a"][0], d["a"][1], d["rho"]), qutip.wigner_covariance_matrix(d["a"][0], d["a"][1], rho=d["rho"]),
                                                qutip.logarithmic_negativity(qutip.wigner_covariance_matrix(d["a"][0], d["a"][1], rho=d["rho"])))),
            "channel-reps": ({"S": S, "U": U, "K": [U * 0.6, to_fmt(qutip.sigmaz(), fmt) * 0.8]},
                             lambda d: (qutip.to_choi(d["S"]), qutip.to_kraus(d["S"]), qutip.to_chi(d["S"]), qutip.to_stinespring(d["S"]), qutip.kraus_to_choi(d["K"]), qutip.kraus_to_super(d["K"]),
                                        d["S"].iscp, d["S"].istp, d["S"].ishp, d["S"].dual_chan())),
            "subsystem_apply": ({"state": two, "psi2": qutip.tensor(psi, psi), "U": U, "S": S, "mask": [True, False]},
                                lambda d: (qutip.subsystem_apply(d["state"], d["U"], d["mask"]), qutip.subsystem_apply(d["state"], d["S"], d["mask"], reference=True), qutip.subsystem_apply(d["psi2"], d["U"], d["mask"]))),
            "tensor-structure": ({"two": two, "op": e[0]},
                                 lambda d: (qutip.tensor_swap(d["two"], (0, 1)), qutip.tensor_contract(d["two"], (0, 2)), qutip.expand_operator(d["op"], [2, 2], 1), d["two"].permute([1, 0]), d["two"].ptrace([1]),
                                            qutip.reshuffle(qutip.to_super(d["two"])), qutip.composite(d["op"], d["op"]))),
            "floquet": ({"H": qutip.QobjEvo([H0, [H1, f_args]], args={"w": 2 * np.pi}), "psi": psi, "tlist": tl, "c_ops": [c[0]], "e_ops": list(e)},
                        lambda d: (qutip.fmmesolve(d["H"], d["psi"], d["tlist"], c_ops=d["c_ops"], e_ops=d["e_ops"], T=1.0, spectra_cb=[lambda w: 0.1 * (w > 0)]).expect,
                                   qutip.FloquetBasis(d["H"], 1.0).to_floquet_basis(d["psi"], 0.3), qutip.FloquetBasis(d["H"], 1.0).state(0.3))),
            "qsave-qload": ({"obj": [rho, psi, S]}, lambda d: _save_load(d["obj"])),
            "bloch_redfield": ({"H": H0, "a_ops": [[to_fmt(qutip.sigmax(), fmt), lambda w: 0.1 * (w > 0) * w]], "c_ops": [c[1]]},
                               lambda d: (qutip.bloch_redfield_tensor(d["H"], d["a_ops"], c_ops=d["c_ops"])[0], qutip.brterm(d["H"], d["a_ops"][0][0], d["a_ops"][0][1]))),
            "transfertensor": ({"dynmaps": [qutip.propagator(H0, t, list(c)) for t in (0.0, 0.1, 0.2, 0.3)], "rho": rho, "times": [0.0, 0.1, 0.2, 0.3, 0.4, 0.5]},
                               lambda d: _ttm(d)),
            "krylovsolve-e_ops": ({"H": to_fmt(qutip.num(4) + qutip.position(4), fmt), "psi": qutip.basis(4, 1), "tlist": tl, "e_ops": [qutip.num(4)]},
                                  lambda d: qutip.krylovsolve(d["H"], d["psi"], d["tlist"], 3, e_ops=d["e_ops"]).expect),
            "floquet-spectra-list": ({"H": qutip.QobjEvo([H0, [H1, f_args]], args={"w": 2 * np.pi}), "psi": psi, "tlist": tl, "c_ops": [c[0], c[-1], H1],
                                      "spectra": [f_spec], "w_th": 0.5, "args": {"w": 2 * np.pi}},
                                     lambda d: qutip.fmmesolve(d["H"], d["psi"], d["tlist"], c_ops=d["c_ops"], T=1.0, spectra_cb=d["spectra"], w_th=d["w_th"], args=d["args"]).states[-1]),
            "steadystate_floquet": ({"H0": H0, "c_ops": list(c), "Op": H1}, lambda d: qutip.steadystate_floquet(d["H0"], d["c_ops"], d["Op"], w_d=1.0, n_it=2)),
            "qpt": ({"U": S, "basis": [[qutip.qeye(2), qutip.sigmax(), qutip.sigmay(), qutip.sigmaz()]]}, lambda d: qutip.qpt(d["U"], d["basis"])),
            "eigen-family": ({"H": H0, "B": to_fmt(qutip.sigmay() + 0.3 * qutip.sigmap(), fmt)},
                             lambda d: (d["H"].eigenenergies(sparse=False), d["H"].eigenstates(sparse=True, eigvals=1)[0] if type(d["H"].data).__name__ == "CSR" else 0, d["B"].eigenenergies(), d["H"].groundstate()[0],
                                        d["B"].norm("tr"), d["B"].norm("one"), d["H"].matrix_element(qutip.basis(2, 0), qutip.basis(2, 1)), d["B"].overlap(d["H"]), d["B"].logm(), d["H"].check_herm(), d["B"].trunc_neg() if False else 0)),
        }
        for nm, (inputs, fn) in calls.items():
            T.check(f"{nm}:{fmt}", inputs, fn, detail={"fmt": fmt})


def _prop_kwargs(d):
    import qutip
    P = qutip.Propagator(d["H"], args=d["args"])
    return P(0.5), P(0.5, w=0.2), P(0.7, 0.1, w=2.0), P.inv(0.3, w=0.9), P(0.5)


def _save_load(objs):
    import qutip
    import tempfile
    with tempfile.TemporaryDirectory() as td:
        path = os.path.join(td, "obj")
        qutip.qsave(objs, path)
        return qutip.qload(path)


def _ttm(d):
    from qutip.solver.nonmarkov.transfertensor import ttmsolve
    return ttmsolve(d["dynmaps"], d["rho"], d["times"]).states


def _iadd_copy(d):
    import qutip
    q = qutip.QobjEvo(d["Q1"])
    q += d["Q2"]
    q *= 2
    q @= d["op"]
    return q


def _args_copy(d):
    q = d["Q1"].copy()
    q.arguments(d["args"])
    return q(0.4)


def f_amp(t, A):
    return A


def feedback_ops(T):
    """operators whose arguments are fed back by the solver: using them once with a plain value leaves them as they were"""
    import qutip
    H0, H1, c, psi, e = system("csr")
    tl = np.linspace(0, 1.0, 5)
    kinds = {"se": (qutip.SESolver, lambda: qutip.SESolver.ExpectFeedback(qutip.sigmaz(), default=0.5)),
             "me": (qutip.MESolver, lambda: qutip.MESolver.ExpectFeedback(qutip.sigmaz(), default=0.5)),
             "state": (qutip.MESolver, lambda: qutip.MESolver.StateFeedback(default=qutip.ket2dm(psi)))}
    for kn, (cls, fb) in kinds.items():
        if kn == "state":
            H = qutip.QobjEvo([H0, [H1, lambda t, A: np.real(A.tr()) if hasattr(A, "tr") else 1.0]], args={"A": fb()})
            plain = {"A": qutip.ket2dm(psi)}
        else:
            H = qutip.QobjEvo([H0, [H1, f_amp]], args={"A": fb()})
            plain = {"A": 0.25}
        st = psi if cls is qutip.SESolver else qutip.ket2dm(psi)
        inputs = {"H": H, "plain": plain, "st": st, "tlist": tl, "e_ops": list(e)}
        T.check(f"feedback-call:{kn}", inputs, lambda d: (d["H"](0.3, **d["plain"]), d["H"](0.3, d["plain"]), qutip.QobjEvo(d["H"], args=d["plain"])(0.3)), detail={"kind": kn})
        T.check(f"feedback-copy-arguments:{kn}", inputs, lambda d: _fb_copy(d), detail={"kind": kn})
        T.check(f"feedback-solver:{kn}", inputs, lambda d: (cls(d["H"]).run(d["st"], d["tlist"], e_ops=d["e_ops"]).expect,
                                                          cls(d["H"]).run(d["st"], d["tlist"], e_ops=d["e_ops"], args=d["plain"]).expect,
                                                          cls(d["H"]).run(d["st"], d["tlist"], e_ops=d["e_ops"]).expect), detail={"kind": kn})
        if kn != "state":
            fn = qutip.sesolve if cls is qutip.SESolver else qutip.mesolve
            T.check(f"feedback-function:{kn}", inputs, lambda d: fn(d["H"], d["st"], d["tlist"], e_ops=d["e_ops"], args=d["plain"]).expect, detail={"kind": kn})


def _fb_copy(d):
    q = d["H"].copy()
    q.arguments(d["plain"])
    return q(0.3)


def coefficient_ops(T):
    import qutip
    tl = np.linspace(0, 1.2, 7)
    forms = {"func": lambda: qutip.coefficient(f_sin, args={"w": 1.3}), "dictfunc": lambda: qutip.coefficient(f_args, args={"w": 0.7}),
             "array": lambda: qutip.coefficient(np.cos(tl), tlist=tl), "str": lambda: qutip.coefficient("cos(w*t)", args={"w": 0.7}),
             "sum": lambda: qutip.coefficient(f_sin, args={"w": 1.3}) + qutip.coefficient("cos(w*t)", args={"w": 0.7}),
             "mul": lambda: qutip.coefficient(f_sin, args={"w": 1.3}) * qutip.coefficient(np.cos(tl), tlist=tl)}
    for nm, mk in forms.items():
        c = mk()
        args = {"w": 3.0}
        samples = np.cos(tl)
        T.check(f"Coefficient.replace:{nm}", {"c": c, "args": args, "tlist": tl, "samples": samples},
                lambda d: (d["c"].replace_arguments(d["args"])(0.3), d["c"].replace_arguments(w=2.5)(0.3), d["c"](0.3, d["args"]), d["c"](0.3, w=1.0),
                           d["c"].conj()(0.3), d["c"]._cdc()(0.3), (d["c"] + d["c"])(0.3), d["c"].copy()(0.3),
                           qutip.coefficient(d["samples"], tlist=d["tlist"])(0.3), qutip.QobjEvo([qutip.qeye(2), d["c"]])(0.3)))


def _tolerate(fn, errors):
    """the value of fn(), or the name of the tolerated error it raises (a missing optional dependency)"""
    try:
        return _quiet(fn)
    except errors as e:
        return type(e).__name__


def _quiet(fn):
    import warnings as _w
    with _w.catch_warnings():
        _w.simplefilter("ignore")
        return fn()


def _start_step(solver, state):
    solver.start(state, 0.0)
    return [solver.step(0.3), solver.step(0.7)]


def solver_ops(T, tier, fmts):
    import qutip
    rng = T.rng
    tlists = {"array": lambda: np.linspace(0, 1.2, 7), "list": lambda: [0.0, 0.2, 0.4, 0.6, 0.8, 1.0, 1.2]}
    state_forms = {"ket": lambda psi: psi, "dm": lambda psi: qutip.ket2dm(psi), "opket": lambda psi: qutip.operator_to_vector(qutip.ket2dm(psi))}
    for fmt in fmts:
        H0, H1, c, psi, e = system(fmt)
        # ---- sesolve / SESolver
        for fname, mk in h_forms(H0, H1).items():
            for tname, mkt in tlists.items():
                inputs = {"H": mk(), "psi": psi, "tlist": mkt(), "e_ops": list(e), "options": {"store_states": True, "atol": 1e-9}, "args": {"w": 0.9}}
                T.check(f"sesolve:{fmt}/{fname}/{tname}", inputs,
                        lambda d: qutip.sesolve(d["H"], d["psi"], d["tlist"], e_ops=d["e_ops"], options=d["options"], args=d["args"]), targets=("sesolve", "SESolver_init", "Solver_init", "Result_init", "_BaseResult_init"),
                        detail={"fmt": fmt, "form": fname})
            if fname != "list":
                inputs = {"H": mk(), "psi": psi, "U0": qutip.qeye(psi.dims[0]), "tlist": np.linspace(0, 1.2, 7), "options": {"method": "dop853"}, "args": {"w": 0.9}, "e_ops": {"z": e[0]}}
                T.check(f"SESolver:{fmt}/{fname}", inputs, lambda d: _solver_cycle(qutip.SESolver, (d["H"],), d, d["psi"]),
                        targets=("SESolver_init", "Solver_init", "Solver_argument"), detail={"fmt": fmt, "form": fname})
                T.check(f"SESolver-propagate:{fmt}/{fname}", inputs, lambda d: qutip.SESolver(d["H"], options=d["options"]).run(d["U0"], d["tlist"]), detail={"fmt": fmt, "form": fname})
                T.check(f"krylovsolve:{fmt}/{fname}", inputs, lambda d: qutip.krylovsolve(d["H"], d["psi"], d["tlist"], krylov_dim=2, e_ops=[e[0]], options=d["options"] if False else {"store_states": True}), targets=(), detail={"fmt": fmt})
        opts = {"store_states": True, "progress_bar": ""}
        T.check(f"krylovsolve-options:{fmt}", {"H": H0, "psi": psi, "tlist": np.linspace(0, 1.2, 7), "options": opts, "e_ops": [e[0]]},
                lambda d: qutip.krylovsolve(d["H"], d["psi"], d["tlist"], 2, e_ops=d["e_ops"], options=d["options"]), targets=("krylovsolve",), detail={"fmt": fmt})
        # initial kets that are not normalised (an integrator that rescales must do so on its own copy), every method
        for method in ("adams", "bdf", "lsoda", "dop853", "vern7", "vern9", "diag", "krylov"):
            T.check(f"sesolve-unnormalised:{fmt}/{method}", {"H": H0, "psi": 2.5 * psi, "tlist": np.linspace(0, 1.2, 7), "options": {"method": method, "store_states": True, "progress_bar": ""}},
                    lambda d: qutip.sesolve(d["H"], d["psi"], d["tlist"], options=d["options"]).states, targets=(), detail={"fmt": fmt, "method": method})
            T.check(f"SESolver-start-unnormalised:{fmt}/{method}", {"H": H0, "psi": (0.3 + 0.4j) * psi, "options": {"method": method, "progress_bar": ""}},
                    lambda d: _start_step(qutip.SESolver(d["H"], options=d["options"]), d["psi"]), targets=(), detail={"fmt": fmt, "method": method})
        # keywords of the previous major version that are still accepted (with a warning) are merged into the solver's options,
        # not into the dictionary the caller handed over
        T.check(f"mesolve-deprecated-keyword:{fmt}", {"H": H0, "rho": qutip.ket2dm(psi), "tlist": np.linspace(0, 1.2, 7), "c_ops": list(c), "options": {"store_states": True, "atol": 1e-9}},
                lambda d: _quiet(lambda: qutip.mesolve(d["H"], d["rho"], d["tlist"], d["c_ops"], options=d["options"], progress_bar=False).states), targets=(), detail={"fmt": fmt})
        T.check(f"smesolve-deprecated-keyword:{fmt}", {"H": H0, "rho": qutip.ket2dm(psi), "tlist": np.linspace(0, 0.3, 4), "sc_ops": [c[0]], "options": {"store_states": True, "dt": 0.05}},
                lambda d: _quiet(lambda: qutip.smesolve(d["H"], d["rho"], d["tlist"], sc_ops=d["sc_ops"], options=d["options"], ntraj=1, seeds=3, store_measurement=True).states), targets=(), detail={"fmt": fmt})
        # environments built from a list of exponents and coefficient lists at once keep the caller's list as it is
        if fmt == fmts[0]:
            from qutip.core.environment import ExponentialBosonicEnvironment, ExponentialFermionicEnvironment, CFExponent
            T.check("environment-exponent-list:bosonic", {"exponents": [CFExponent("R", 0.1, 1.0)], "ck": [0.2], "vk": [2.0]},
                    lambda d: len(ExponentialBosonicEnvironment(d["ck"], d["vk"], [], [], exponents=d["exponents"], combine=False).exponents), targets=(), detail={})
            T.check("environment-exponent-list:fermionic", {"exponents": [CFExponent("+", 0.1, 1.0), CFExponent("-", 0.1, 1.0)], "ck": [0.2], "vk": [2.0]},
                    lambda d: len(ExponentialFermionicEnvironment(d["ck"], d["vk"], d["ck"], d["vk"], exponents=d["exponents"]).exponents), targets=(), detail={})
        # options that are dictionaries themselves: the solver adds its own entries to a copy (the MPI executor is not installed
        # here; the dictionary is handled before the map starts)
        T.check(f"mcsolve-mpi-options:{fmt}", {"H": H0, "psi": psi, "tlist": np.linspace(0, 0.3, 3), "c_ops": list(c), "options": {"map": "mpi", "mpi_options": {"use_dill": False}, "progress_bar": ""}},
                lambda d: _tolerate(lambda: qutip.mcsolve(d["H"], d["psi"], d["tlist"], d["c_ops"], ntraj=2, seeds=1, options=d["options"]), (ModuleNotFoundError, ImportError)), targets=(), detail={"fmt": fmt})
        # ---- mesolve / MESolver: H forms x c_op forms x state forms, Liouvillian forms
        c_forms = {"qobj": lambda: list(c), "none": lambda: [], "single": lambda: c[0], "qobjevo": lambda: [qutip.QobjEvo([c[0], f_sin], args={"w": 0.5}), c[1]],
                   "super": lambda: [qutip.lindblad_dissipator(c[0]), c[1]], "super_evo": lambda: [qutip.QobjEvo([qutip.lindblad_dissipator(c[0]), f_sin], args={"w": 0.5})]}
        methods = ["adams", "bdf", "dop853", "vern7", "diag"] if tier == "thorough" else ["adams", "vern7"]
        for sup in (False, True):
            for fname, mk in h_forms(H0, H1, sup).items():
                for cname, mkc in c_forms.items():
                    if tier == "quick" and rng.random() < 0.5 and not (sup and fname.startswith("qobjevo")):
                        continue
                    for sname, mks in state_forms.items():
                        method = str(rng.choice(methods))
                        if method == "diag" and fname != "qobj":
                            method = "adams"
                        inputs = {"H": mk(), "c_ops": mkc(), "rho": mks(psi), "tlist": np.linspace(0, 1.2, 7), "e_ops": list(e) if sname != "opket" else [],
                                  "options": {"store_states": True, "method": method}, "args": {"w": 0.9}}
                        T.check(f"mesolve:{fmt}/{'L' if sup else 'H'}-{fname}/{cname}/{sname}/{method}", inputs,
                                lambda d: qutip.mesolve(d["H"], d["rho"], d["tlist"], c_ops=d["c_ops"], e_ops=d["e_ops"], options=d["options"], args=d["args"]),
                                targets=("mesolve", "MESolver_init", "Solver_init"), detail={"fmt": fmt, "H": fname, "super": sup, "c": cname, "state": sname})
                    if fname != "list":
                        inputs = {"H": mk(), "c_ops": mkc(), "rho": qutip.ket2dm(psi), "tlist": np.linspace(0, 1.2, 7), "options": {"store_states": True}, "args": {"w": 0.9}, "e_ops": list(e)}
                        T.check(f"MESolver:{fmt}/{'L' if sup else 'H'}-{fname}/{cname}", inputs, lambda d: _solver_cycle(qutip.MESolver, (d["H"], d["c_ops"]), d, d["rho"]),
                                targets=("MESolver_init", "Solver_init", "Solver_argument"), detail={"fmt": fmt, "H": fname, "super": sup, "c": cname})
        # ---- mcsolve / MCSolver / nm_mcsolve
        for fname, mk in h_forms(H0, H1).items():
            for cname in ("qobj", "qobjevo"):
                inputs = {"H": mk(), "c_ops": c_forms[cname](), "psi": psi, "tlist": np.linspace(0, 1.2, 7), "e_ops": list(e),
                          "options": {"store_states": True, "progress_bar": "", "keep_runs_results": True}, "args": {"w": 0.9}, "seeds": [1, 2, 3]}
                T.check(f"mcsolve:{fmt}/{fname}/{cname}", inputs,
                        lambda d: qutip.mcsolve(d["H"], d["psi"], d["tlist"], d["c_ops"], e_ops=d["e_ops"], ntraj=3, options=d["options"], args=d["args"], seeds=d["seeds"]),
                        targets=("mcsolve", "MCSolver_init", "_MCRHS_init", "MultiTrajSolver_init", "MultiTrajResult_init"), detail={"fmt": fmt, "H": fname, "c": cname})
                if fname != "list":
                    T.check(f"MCSolver:{fmt}/{fname}/{cname}", inputs, lambda d: _mc_cycle(qutip.MCSolver, (d["H"], d["c_ops"]), d),
                            targets=("MCSolver_init", "_MCRHS_init", "_MCRHS_arguments", "MultiTrajSolver_init"), detail={"fmt": fmt, "H": fname, "c": cname})
        ops_and_rates = [(c[0], qutip.coefficient(f_sin, args={"w": 2.0})), (c[1], 0.3)]
        inputs = {"H": H0, "ops_and_rates": ops_and_rates, "psi": psi, "tlist": np.linspace(0, 1.2, 7), "e_ops": list(e),
                  "options": {"progress_bar": "", "keep_runs_results": True, "store_states": True}, "args": {"w": 2.5}, "seeds": [1, 2, 3]}
        T.check(f"nm_mcsolve:{fmt}", inputs, lambda d: qutip.nm_mcsolve(d["H"], d["psi"], d["tlist"], d["ops_and_rates"], e_ops=d["e_ops"], ntraj=3, options=d["options"], seeds=d["seeds"]),
                targets=("nm_mcsolve", "NonMarkovianMCSolver_init"), detail={"fmt": fmt})
        T.check(f"NonMarkovianMCSolver:{fmt}", inputs, lambda d: _mc_cycle(qutip.NonMarkovianMCSolver, (d["H"], d["ops_and_rates"]), d),
                targets=("NonMarkovianMCSolver_init",), detail={"fmt": fmt})
        # ---- brmesolve
        a_ops = [[to_fmt(qutip.sigmax(), fmt), qutip.coefficient(lambda t, w: 0.1 * (w > 0) * w, args={"w": 0})] if False else [to_fmt(qutip.sigmax(), fmt), "0.1*(w>0)*w"]]
        try:
            from qutip.core.environment import OhmicEnvironment
            a_ops = [[to_fmt(qutip.sigmax(), fmt), OhmicEnvironment(T=0.5, wc=5, alpha=0.05, s=1)]]
        except Exception:                # noqa
            pass
        for fname in ("qobj", "qobjevo_func"):
            inputs = {"H": h_forms(H0, H1)[fname](), "a_ops": a_ops, "c_ops": [c[1]], "psi": psi, "tlist": np.linspace(0, 1.2, 7), "e_ops": list(e), "options": {"store_states": True}, "args": {"w": 0.9}}
            T.check(f"brmesolve:{fmt}/{fname}", inputs, lambda d: qutip.brmesolve(d["H"], d["psi"], d["tlist"], a_ops=d["a_ops"], c_ops=d["c_ops"], e_ops=d["e_ops"], options=d["options"], args=d["args"]),
                    targets=("brmesolve", "BRSolver_init"), detail={"fmt": fmt, "H": fname})
        # ---- stochastic: schemes x dt x state forms
        sse_methods = ["euler", "platen", "explicit1.5", "rouchon", "milstein", "pred_corr", "taylor1.5", "milstein_imp", "taylor1.5_imp"]
        sme_methods = ["euler", "platen", "explicit1.5", "rouchon", "milstein", "pred_corr", "taylor1.5", "milstein_imp", "taylor1.5_imp"]
        sse_methods = [m for m in sse_methods if m in qutip.SSESolver.avail_integrators()]
        sme_methods = [m for m in sme_methods if m in qutip.SMESolver.avail_integrators()]
        for which, methods_ in (("sme", sme_methods), ("sse", sse_methods)):
            for method in methods_:
                for nsub in (1, 2, 5):
                    if tier == "quick" and fmt != "dense" and rng.random() < 0.6:
                        continue
                    forms = state_forms if which == "sme" else {"ket": state_forms["ket"]}
                    for sname, mks in forms.items():
                        for het in (False, True) if tier == "thorough" else (False,):
                            inputs = {"H": H0, "sc_ops": [c[0]], "c_ops": [c[1]], "rho": mks(psi), "tlist": np.linspace(0, 0.6, 4), "e_ops": list(e) if sname != "opket" else [],
                                      "options": {"method": method, "dt": 0.2 / nsub, "store_states": True, "store_measurement": sname != "opket", "progress_bar": "", "keep_runs_results": True}, "seeds": [5, 6]}
                            if which == "sme":
                                fn = lambda d: qutip.smesolve(d["H"], d["rho"], d["tlist"], c_ops=d["c_ops"], sc_ops=d["sc_ops"], heterodyne=het, e_ops=d["e_ops"], ntraj=2, options=d["options"], seeds=d["seeds"])
                            else:
                                fn = lambda d: qutip.ssesolve(d["H"], d["rho"], d["tlist"], sc_ops=d["sc_ops"], heterodyne=het, e_ops=d["e_ops"], ntraj=2, options=d["options"], seeds=d["seeds"])
                            T.check(f"{which}solve:{fmt}/{method}/sub{nsub}/{sname}/{'het' if het else 'hom'}", inputs, fn,
                                    targets=("smesolve" if which == "sme" else "ssesolve", "StochasticSolver_init", "_StochasticRHS_init"),
                                    detail={"fmt": fmt, "method": method, "substeps": nsub, "state": sname})
        # ---- replays from a recorded noise / measurement record: the record handed in stays as it was
        for which, cls in (("sme", qutip.SMESolver), ("sse", qutip.SSESolver)):
            for nsc in (1, 2):
                for method in (("euler", "platen", "rouchon") if tier == "thorough" else (str(rng.choice(["euler", "platen", "rouchon"])),)):
                    st = qutip.ket2dm(psi) if which == "sme" else psi
                    scs = [c[0], c[1]][:nsc]
                    tl_ = np.linspace(0, 0.4, 5)
                    o_ = {"method": method, "dt": 0.1, "store_measurement": "start", "progress_bar": "", "keep_runs_results": True, "store_states": True}
                    try:
                        base = cls(H0, scs, False, options=o_).run(st, tl_, ntraj=1, seeds=3)
                    except Exception:      # noqa
                        continue
                    for rec_name, rec, meas in (("dW", np.array(base.dW[0]), False), ("measurement", np.array(base.measurement[0]), True)):
                        for order_ in ("C", "F"):
                            rec_in = np.array(rec, dtype=float, order=order_)
                            inputs = {"H": H0, "sc_ops": list(scs), "psi": st, "tlist": tl_, "record": rec_in, "options": dict(o_)}
                            T.check(f"run_from_experiment:{which}/{fmt}/{method}/{nsc}ch/{rec_name}/{order_}", inputs,
                                    lambda d: cls(d["H"], d["sc_ops"], False, options=d["options"]).run_from_experiment(d["psi"], d["tlist"], d["record"], measurement=meas).states,
                                    detail={"fmt": fmt, "method": method, "channels": nsc, "record": rec_name, "order": order_})
        # ---- stochastic solver objects reused with new arguments
        for which, cls in (("sme", qutip.SMESolver), ("sse", qutip.SSESolver)):
            for fname in ("qobjevo_func", "qobjevo_dictfunc"):
                for method in (("euler", "platen", "rouchon") if tier == "thorough" else (str(rng.choice(["euler", "platen", "rouchon"])),)):
                    st = qutip.ket2dm(psi) if which == "sme" else psi
                    inputs = {"H": h_forms(H0, H1)[fname](), "sc_ops": [qutip.QobjEvo([c[0], f_sin], args={"w": 0.5})], "psi": st, "tlist": np.linspace(0, 0.6, 4), "e_ops": list(e),
                              "options": {"method": method, "dt": 0.05, "store_states": True, "progress_bar": "", "keep_runs_results": True}, "args": {"w": 0.9}}
                    T.check(f"{which.upper()}Solver:{fmt}/{fname}/{method}", inputs,
                            lambda d: _mc_cycle(cls, (d["H"], d["sc_ops"], False), d), targets=("StochasticSolver_init", "_StochasticRHS_init"), detail={"fmt": fmt, "H": fname, "method": method})
        # ---- propagator, steadystate, correlation, floquet
        inputs = {"H": h_forms(H0, H1)["qobjevo_func"](), "c_ops": list(c), "tlist": np.linspace(0, 1.2, 4), "options": {"atol": 1e-9}, "args": {"w": 0.6}, "psi": psi, "e_ops": list(e)}
        T.check(f"propagator:{fmt}", inputs, lambda d: (qutip.propagator(d["H"], 0.7, d["c_ops"], args=d["args"], options=d["options"]), qutip.propagator(d["H"], d["tlist"], options=d["options"])), detail={"fmt": fmt})
        T.check(f"Propagator:{fmt}", inputs, lambda d: _prop_cycle(d), detail={"fmt": fmt})
        for method in ("direct", "eigen", "svd", "power"):
            inputs2 = {"H": H0, "c_ops": list(c)}
            T.check(f"steadystate:{fmt}/{method}", inputs2, lambda d: qutip.steadystate(d["H"], d["c_ops"], method=method), detail={"fmt": fmt, "method": method})
        Lq = qutip.liouvillian(H0, c)
        T.check(f"steadystate-L:{fmt}", {"L": Lq}, lambda d: qutip.steadystate(d["L"]), detail={"fmt": fmt})
        T.check(f"pseudo_inverse:{fmt}", {"L": Lq}, lambda d: qutip.pseudo_inverse(d["L"]), detail={"fmt": fmt})
        T.check(f"correlation:{fmt}", {"H": H0, "c_ops": list(c), "taulist": np.linspace(0, 1, 5), "a": e[0], "b": e[1], "rho": qutip.ket2dm(psi)},
                lambda d: (qutip.correlation_2op_1t(d["H"], d["rho"], d["taulist"], d["c_ops"], d["a"], d["b"]), qutip.spectrum(d["H"], [0.1, 0.5], d["c_ops"], d["a"], d["b"])), detail={"fmt": fmt})
        Hf = [H0, [H1, "cos(w*t)"]] if False else qutip.QobjEvo([H0, [H1, f_args]], args={"w": 2 * np.pi})
        T.check(f"floquet:{fmt}", {"H": Hf, "psi": psi, "tlist": np.linspace(0, 1.5, 6), "e_ops": list(e), "args": {"w": 2 * np.pi}},
                lambda d: (qutip.fsesolve(d["H"], d["psi"], d["tlist"], e_ops=d["e_ops"], T=1.0), qutip.FloquetBasis(d["H"], 1.0).mode(0.3)), detail={"fmt": fmt})
    # ---- HEOM
    try:
        from qutip.solver.heom import HEOMSolver, DrudeLorentzBath
        H0, H1, c, psi, e = system("csr")
        bath = DrudeLorentzBath(qutip.sigmaz(), lam=0.05, gamma=1.0, T=1.0, Nk=1)
        inputs = {"H": H0, "bath": bath, "rho": qutip.ket2dm(psi), "tlist": np.linspace(0, 1.0, 5), "options": {"nsteps": 5000, "store_ados": True, "progress_bar": ""}, "e_ops": list(e)}
        T.check("heom", inputs, lambda d: HEOMSolver(d["H"], d["bath"], max_depth=2, options=d["options"]).run(d["rho"], d["tlist"], e_ops=d["e_ops"]), detail={})
        inputs = dict(inputs, H=qutip.QobjEvo([H0, [H1, f_sin]], args={"w": 1.0}))
        T.check("heom-td", inputs, lambda d: HEOMSolver(d["H"], d["bath"], max_depth=1, options=d["options"]).run(d["rho"], d["tlist"], e_ops=d["e_ops"]), detail={})
    except ImportError:
        pass
    # ---- results: merging twice
    H0, H1, c, psi, e = system("csr")
    o = {"progress_bar": "", "keep_runs_results": False, "store_states": True}
    for keep in (False, True):
        o2 = dict(o, keep_runs_results=keep)
        r1 = qutip.mcsolve(H0, psi, np.linspace(0, 1, 4), c, e_ops=e, ntraj=3, options=o2, seeds=1)
        r2 = qutip.mcsolve(H0, psi, np.linspace(0, 1, 4), c, e_ops=e, ntraj=4, options=o2, seeds=2)
        T.check(f"result-merge:keep={keep}", {"r1": r1, "r2": r2}, lambda d: (d["r1"] + d["r2"], d["r1"].merge(d["r2"], p=0.3), (d["r1"] + d["r2"]) + d["r1"]),
                targets=("MultiTrajResult_add", "_TrajectorySum_merge"), detail={"keep": keep})
        s1 = qutip.smesolve(H0, qutip.ket2dm(psi), np.linspace(0, 0.4, 3), c_ops=[c[1]], sc_ops=[c[0]], e_ops=e, ntraj=2, options=dict(o2, dt=0.05), seeds=1)
        s2 = qutip.smesolve(H0, qutip.ket2dm(psi), np.linspace(0, 0.4, 3), c_ops=[c[1]], sc_ops=[c[0]], e_ops=e, ntraj=2, options=dict(o2, dt=0.05), seeds=2)
        T.check(f"result-merge-sme:keep={keep}", {"r1": s1, "r2": s2}, lambda d: (d["r1"] + d["r2"], (d["r1"] + d["r2"]) + d["r2"]), detail={"keep": keep})


def _solver_cycle(cls, ctor_args, d, state):
    """construct, run, run with new args, step interface, construct a second solver from the same objects"""
    s1 = cls(*ctor_args, options=d["options"])
    r1 = s1.run(state, d["tlist"], e_ops=d["e_ops"])
    r2 = s1.run(state, d["tlist"], e_ops=d["e_ops"], args=d["args"])
    s1.start(state, 0.0)
    st = [s1.step(0.3), s1.step(0.6, args=d["args"])]
    s2 = cls(*ctor_args, options=d["options"])
    r3 = s2.run(state, d["tlist"], e_ops=d["e_ops"])
    return r1, r2, st, r3


def _mc_cycle(cls, ctor_args, d):
    s1 = cls(*ctor_args, options=d["options"])
    r1 = s1.run(d["psi"], d["tlist"], ntraj=2, e_ops=d["e_ops"], seeds=[3, 4])
    r2 = s1.run(d["psi"], d["tlist"], ntraj=2, e_ops=d["e_ops"], seeds=[3, 4], args=d["args"])
    s1.start(d["psi"], 0.0, seed=7)
    st = [s1.step(0.3), s1.step(0.6, args=d["args"])]
    s2 = cls(*ctor_args, options=d["options"])
    r3 = s2.run(d["psi"], d["tlist"], ntraj=2, e_ops=d["e_ops"], seeds=[3, 4])
    return r1, r2, st, r3


def _prop_cycle(d):
    import qutip
    P = qutip.Propagator(d["H"], c_ops=d["c_ops"], args=d["args"], options=d["options"])
    return P(0.5), P(1.0, 0.2), P(0.5, w=0.3) if False else P(0.7), P.inv(0.3)


def run(tier, seed, replay):
    rep = core.Report(PID, tier, seed)
    rep.rule = ("snapshot table: Qobj operators x 16 format pairs, QobjEvo operations x forms x state formats, coefficients, "
                "every solver function and class x Hamiltonian/Liouvillian forms x collapse forms x state forms x methods x reuse cycles; "
                "non-trivial = every call (inputs are non-empty objects)")
    rep.assumptions = ["equality with the snapshot is exact on values (entries, dims, storage type, element count, dictionary contents); caches of derived flags are not part of it",
                       "calls the translator does not know are assumed not to update their arguments; the list per function is in the evidence and the snapshot table validates it on the exercised inputs",
                       "field-sensitive aliasing (an attribute of a new object that still is a caller's object, e.g. MultiTrajResult.merge) is beyond the analysis and covered by the table only"]
    core.build_repo()
    proved = core.prove(rep, ["Qv.Model.C04", "Qv.Proofs.C04", "Qv.Props.C04"], "Qv.Props.C04")
    # ---- translator + generated obligations
    info = ta.translate()
    names = [n for n, v in info.items() if v.get("found")]
    missing = [n for n, v in info.items() if not v.get("found")]
    res = core.run_driver(["C04.analyze " + json.dumps({"ir": info[n]["json"], "recv": info[n]["recv"]}) for n in names])
    safe = {n: bool(r.get("safe")) for n, r in zip(names, res)}
    core.write_if_changed(os.path.join(core.LEAN, "Qv", "Gen", "AliasIR.lean"), ta.render(info, safe))
    ok_gen, log = core.lake_build(["Qv.Gen.AliasIR"])
    rep.obligations += len(info)
    rep.discharged += sum(1 for n in names if safe[n]) if ok_gen else 0
    refused = [n for n in names if not safe[n]]
    if refused or missing or not ok_gen:
        rep.broken.append({"kind": "generated obligations", "module": "Qv.Gen.AliasIR", "refused": refused, "not_found": missing,
                           "log_tail": "" if ok_gen else log[-800:]})
    rep.notes["skeletons"] = {n: {"stmts": info[n]["stmts"], "assumed_pure_calls": info[n]["assumed_pure_calls"], "constructor_calls": info[n]["constructor_calls"]} for n in names}
    if tier == "thorough":
        core.leanchecker(rep, ["Qv.Props.C04"] + (["Qv.Gen.AliasIR"] if ok_gen else []))
    # ---- the snapshot table
    import qutip  # noqa
    rng = np.random.default_rng(seed)
    T = Table(rep, rng)
    fmts = FORMATS if tier == "thorough" else ["dense", "csr"] + [str(rng.choice(["dense_f", "dia"]))]
    qobj_ops(T, FORMATS)
    qobjevo_ops(T, fmts)
    feedback_ops(T)
    super_expect_ops(T)
    misc_ops(T, tier)
    coefficient_ops(T)
    solver_ops(T, tier, fmts)
    rep.case({"formats": fmts}, True)
    # ---- correspondence: analysis verdict vs observation
    ndis = 0
    for n, mutated in T.observed.items():
        if n in safe and safe[n] and mutated:
            ndis += 1
            rep.broken.append({"kind": "correspondence", "skeleton": n, "what": "the analysis accepts it, the snapshot table saw an input change"})
    rep.notes["correspondence_disagreements"] = ndis
    rep.notes["skeletons_exercised"] = sorted(T.observed)
    rep.notes["calls_that_raise"] = T.raised
    for sig, (what, data) in T.viol.items():
        rep.violation(core.Violation("C04:" + sig, what, data))
    if (rep.broken or not proved) and not rep.violations:
        rep.violation(core.Violation("C04:unverified", "model/proof no longer matches the code and no failing input was found: " + ", ".join(refused + missing),
                                     {"broken": rep.broken}, failing_input_found=False))
    return rep.finish()


if __name__ == "__main__":
    core.main(run, PID)
