"""C07 — superoperator constructors implement the operator identities they stand for.

Exact correspondence: spre / spost / sprepost / lindblad_dissipator / liouvillian on Gaussian-integer
operators (single and composite dims, every storage format) against the executable formulas of
Qv.Model.C07 (whose identities are proved in Qv.Props.C07 with Mathlib).
Oracle (independent): each superoperator applied to the full operator basis equals the operator
expression; stacking/unstacking inverse; every generator is traceless and adjoint-commuting; all
construction routes agree (data_only, QobjEvo inputs, term by term, H=None, counting fields);
Bloch-Redfield: the three computation methods and both output bases agree, tracelessness, adjoint
commutation, time-dependent route vs constant route.
"""
import itertools
import json
import os
import sys

import numpy as np

sys.path.insert(0, os.path.dirname(os.path.abspath(__file__)))
import core

PID = "C07"
FMTS = ["csr", "dense", "dia"]


def gi(n, m, rng, herm=False):
    a = rng.integers(-2, 3, size=(n, m)) + 1j * rng.integers(-2, 3, size=(n, m))
    a = a.astype(complex)
    if herm:
        a = a + a.conj().T
    return a


def to_rows(a):
    return [[[int(round(z.real)), int(round(z.imag))] for z in row] for row in np.asarray(a)]


def from_rows(r):
    return np.array([[c[0] + 1j * c[1] for c in row] for row in r], dtype=complex)


def vec(x):
    return np.asarray(x).reshape(-1, order="F")


def basis_ops(n):
    for i in range(n):
        for j in range(n):
            e = np.zeros((n, n), dtype=complex)
            e[i, j] = 1
            yield e


def rhs(H, cs, X, chi=None):
    out = -1j * (H @ X - X @ H)
    for k, c in enumerate(cs):
        ph = np.exp(1j * chi[k]) if chi is not None else 1.0
        cdc = c.conj().T @ c
        out = out + ph * (c @ X @ c.conj().T) - 0.5 * (cdc @ X + X @ cdc)
    return out


def _at(x, t):
    import qutip
    return x(t) if isinstance(x, qutip.QobjEvo) else x


def br_reference(H, a, spec):
    """the documented Bloch-Redfield tensor (no secular approximation), column stacking, Fock basis"""
    w, U = np.linalg.eigh(H)
    A = U.conj().T @ a @ U
    N = len(w)
    R = np.zeros((N * N, N * N), dtype=complex)
    for a_ in range(N):
        for b_ in range(N):
            for c in range(N):
                for d in range(N):
                    val = -1j * (w[a_] - w[b_]) if (a_ == c and b_ == d) else 0
                    t = 0
                    if b_ == d:
                        t += sum(A[a_, n] * A[n, c] * spec(w[c] - w[n]) for n in range(N))
                    t -= A[a_, c] * A[d, b_] * spec(w[c] - w[a_])
                    if a_ == c:
                        t += sum(A[d, n] * A[n, b_] * spec(w[d] - w[n]) for n in range(N))
                    t -= A[a_, c] * A[d, b_] * spec(w[d] - w[b_])
                    R[b_ * N + a_, d * N + c] = val - 0.5 * t
    S = np.kron(U.conj(), U)
    return S @ R @ S.conj().T


def gen_case(rng, tier):
    dims = [[2], [3], [2, 2], [2, 3], [4], [3, 2]][int(rng.integers(0, 6))]
    n = int(np.prod(dims))
    herm = bool(rng.random() < 0.7)
    ncs = int(rng.integers(0, 3))
    return {"dims": dims, "H": to_rows(gi(n, n, rng, herm)), "herm": herm,
            "cs": [to_rows(gi(n, n, rng)) for _ in range(ncs)],
            "chi": [float(x) for x in rng.choice([0.0, 0.5, 1.0, np.pi / 3], size=ncs)] if ncs and rng.random() < 0.5 else None,
            "fmt": [str(rng.choice(FMTS)) for _ in range(1 + ncs)]}


def run_case(case):
    import qutip
    viol, lines, impl = [], [], []
    dims = case["dims"]
    n = int(np.prod(dims))
    Hn = from_rows(case["H"])
    csn = [from_rows(c) for c in case["cs"]]
    H = qutip.Qobj(Hn, dims=[dims, dims]).to(case["fmt"][0])
    cs = [qutip.Qobj(c, dims=[dims, dims]).to(f) for c, f in zip(csn, case["fmt"][1:])]

    def V(sig, what):
        viol.append((sig, f"dims={dims} fmt={case['fmt']}: {what}"))
    # --- spre / spost / sprepost: model + action on the operator basis
    A = H
    B = cs[0] if cs else H
    An, Bn = Hn, (csn[0] if csn else Hn)
    for kind, S, act in (("spre", qutip.spre(A), lambda X: An @ X), ("spost", qutip.spost(A), lambda X: X @ An),
                         ("sprepost", qutip.sprepost(A, B), lambda X: An @ X @ Bn)):
        Sf = S.full()
        for X in basis_ops(n):
            if np.abs(Sf @ vec(X) - vec(act(X))).max() > 1e-9:
                V(kind, f"{kind} does not act on a column-stacked operator as the operator expression")
                break
        if S.dims != [[dims, dims], [dims, dims]] or not S.issuper:
            V(kind + "-dims", f"{kind} labelled {S.dims}")
        lines.append("C07.super " + json.dumps({"kind": kind, "a": case["H"], "b": case["cs"][0] if cs else case["H"]}))
        impl.append(to_rows(Sf))
    # stacking / unstacking
    X0 = qutip.Qobj(gi(n, n, np.random.default_rng(n)), dims=[dims, dims])
    v = qutip.operator_to_vector(X0)
    if np.abs(v.full()[:, 0] - vec(X0.full())).max() > 1e-12 or (qutip.vector_to_operator(v) - X0).norm() > 1e-12:
        V("stacking", "operator_to_vector / vector_to_operator are not column stacking / mutually inverse")
    # --- liouvillian: model (chi = None) and routes
    L = qutip.liouvillian(H, cs)
    Lf = L.full()
    lines.append("C07.liouvillian " + json.dumps({"h": case["H"], "cs": case["cs"]}))
    impl.append(to_rows(2 * Lf))
    for X in basis_ops(n):
        if np.abs(Lf @ vec(X) - vec(rhs(Hn, csn, X))).max() > 1e-9:
            V("liouvillian", "liouvillian(H, c_ops) does not act as -i[H,.] + sum D[c]")
            break
    one = vec(np.eye(n))
    if np.abs(one @ Lf).max() > 1e-9:
        V("traceless", "vec(1)^T L != 0: the generator does not send every operator to a traceless one")
    if case["herm"]:
        for X in basis_ops(n):
            lhs = (Lf @ vec(X)).reshape(n, n, order="F").conj().T
            r = (Lf @ vec(X.conj().T)).reshape(n, n, order="F")
            if np.abs(lhs - r).max() > 1e-9:
                V("adjoint", "the generator of a Hermitian Hamiltonian does not commute with taking the adjoint")
                break
    routes = {
        "data_only": lambda: qutip.Qobj(qutip.liouvillian(H, cs, data_only=True), dims=L.dims).full(),
        "term-by-term": lambda: (-1j * (qutip.spre(H) - qutip.spost(H)) + sum(qutip.lindblad_dissipator(c) for c in cs)).full()
        if cs else (-1j * (qutip.spre(H) - qutip.spost(H))).full(),
        "qobjevo-H": lambda: qutip.liouvillian(qutip.QobjEvo(H), cs)(0.3).full(),
        "qobjevo-c": lambda: _at(qutip.liouvillian(H, [qutip.QobjEvo(c) for c in cs]), 0.3).full(),
        "td-coeff": lambda: qutip.liouvillian(qutip.QobjEvo([H, lambda t: 1.0]), [qutip.QobjEvo([c, lambda t: 1.0]) for c in cs])(0.7).full(),
        "none-plus-H": lambda: (qutip.liouvillian(H) + qutip.liouvillian(None, cs)).full() if cs else Lf,
        "zero-H": lambda: (qutip.liouvillian(H) + qutip.liouvillian(0 * H, cs)).full(),
    }
    for nm, f in routes.items():
        try:
            got = f()
        except Exception as e:
            V("route-raises:" + nm, f"{type(e).__name__}: {e}"[:200])
            continue
        if got.shape != Lf.shape or np.abs(got - Lf).max() > 1e-9:
            V("route:" + nm, f"construction route '{nm}' gives a different generator")
    # --- counting fields
    chi = case["chi"]
    if chi is not None and cs:
        Lc = qutip.liouvillian(H, cs, chi=chi).full()
        for X in basis_ops(n):
            if np.abs(Lc @ vec(X) - vec(rhs(Hn, csn, X, chi))).max() > 1e-9:
                V("chi", f"liouvillian(H, c_ops, chi={chi}) is not the generator with counting-field phases on the jump terms")
                break
        for nm, f in {"chi-none-plus-H": lambda: (qutip.liouvillian(H) + qutip.liouvillian(None, cs, chi=chi)).full(),
                      "chi-data_only": lambda: qutip.Qobj(qutip.liouvillian(H, cs, chi=chi, data_only=True), dims=L.dims).full(),
                      "chi-qobjevo": lambda: qutip.liouvillian(qutip.QobjEvo(H), cs, chi=chi)(0.1).full()}.items():
            try:
                got = f()
            except Exception as e:
                V("route-raises:" + nm, f"{type(e).__name__}: {e}"[:200])
                continue
            if np.abs(got - Lc).max() > 1e-9:
                V("route:" + nm, f"construction route '{nm}' disagrees with liouvillian(H, c_ops, chi)")
        D = qutip.lindblad_dissipator(cs[0], chi=chi[0]).full()
        for X in basis_ops(n):
            if np.abs(D @ vec(X) - vec(rhs(0 * Hn, csn[:1], X, chi[:1]))).max() > 1e-9:
                V("chi-dissipator", "lindblad_dissipator(c, chi) wrong")
                break
    # --- dissipator (model, doubled)
    if cs:
        D = qutip.lindblad_dissipator(cs[0])
        lines.append("C07.super " + json.dumps({"kind": "dissipator2", "a": case["cs"][0]}))
        impl.append(to_rows(2 * D.full()))
        # with a counting field whose factor e^{i chi} is a Gaussian unit, and with two different operators (model, doubled)
        for zk, (zr, zi) in enumerate(((1, 0), (0, 1), (-1, 0), (0, -1))):
            Dz = qutip.lindblad_dissipator(cs[0], cs[-1], chi=zk * np.pi / 2)
            lines.append("C07.super " + json.dumps({"kind": "dissipator_chi2", "a": case["cs"][0], "b": case["cs"][-1], "z": [zr, zi]}))
            impl.append(to_rows(np.round(2 * Dz.full(), 9)))
        D2 = qutip.lindblad_dissipator(cs[0], cs[-1]).full()
        a, b = csn[0], csn[-1]
        for X in basis_ops(n):
            want = a @ X @ b.conj().T - 0.5 * (a.conj().T @ b @ X + X @ a.conj().T @ b)
            if np.abs(D2 @ vec(X) - vec(want)).max() > 1e-9:
                V("dissipator-ab", "lindblad_dissipator(a, b) is not a X b^dag - 1/2 {a^dag b, X}")
                break
    return lines, impl, viol


def bloch_redfield(rng, tier, rep):
    import qutip
    viol = []
    for trial in range(3 if tier == "quick" else 15):
        N = int(rng.choice([2, 3]))
        H = qutip.rand_herm(N, seed=int(rng.integers(1 << 30)), density=1.0)
        a = qutip.rand_herm(N, seed=int(rng.integers(1 << 30)), density=1.0)
        if trial % 3 == 0:
            H = qutip.Qobj(np.real(H.full()))
        if trial % 2 == 0:
            a = qutip.Qobj(np.real(a.full()))
        spec = lambda w: 0.3 * (w > 0) * w + 0.05          # noqa: E731  (real spectrum)
        base = None
        # independent references: the documented formula, and the white-noise limit = Lindblad dissipator of a
        try:
            Rq = qutip.bloch_redfield_tensor(H, [[a, spec]], fock_basis=True, sec_cutoff=-1).full()
            Rr = br_reference(H.full(), a.full(), spec)
            if np.abs(Rq - Rr).max() > 1e-8 * (1 + np.abs(Rr).max()):
                viol.append(("br-formula", f"bloch_redfield_tensor (N={N}, {'real' if trial % 3 == 0 else 'complex'} H, {'real' if trial % 2 == 0 else 'complex'} coupling) differs from the documented tensor by {np.abs(Rq - Rr).max():.2e}"))
            flat = lambda w: 1.0 + 0 * w      # noqa: E731
            Rw = qutip.bloch_redfield_tensor(H, [[a, flat]], fock_basis=True, sec_cutoff=-1)
            if (Rw - qutip.liouvillian(H, [a])).norm() > 1e-8:
                viol.append(("br-white-noise", f"with a flat spectrum the Bloch-Redfield tensor (N={N}) is not the Lindblad generator of the coupling operator"))
        except core.CaseTimeout:
            raise
        except Exception as e:
            viol.append(("br-raises:reference", f"{type(e).__name__}: {e}"[:200]))
        # the same spectrum in other written forms: sampled on a frequency grid (a coefficient built from arrays), a string,
        # a Coefficient of w; and the tensor as a function of time for a time-dependent coupling with arguments
        try:
            with core.time_limit(120):
                from qutip.core.blochredfield import SpectraCoefficient
                smooth = lambda w: 0.2 + 0.1 * np.tanh(w)        # noqa: E731
                wgrid = np.linspace(-12, 12, 2401)
                forms = {"function": smooth, "sampled on a frequency grid": qutip.coefficient(smooth(wgrid), tlist=wgrid, order=3),
                         "string": "0.2 + 0.1 * tanh(w)", "SpectraCoefficient of a sampled coefficient": SpectraCoefficient(qutip.coefficient(smooth(wgrid), tlist=wgrid, order=3))}
                ref_form = None
                for nm_, sp_ in forms.items():
                    Rf = qutip.bloch_redfield_tensor(H, [[a, sp_]], fock_basis=True, sec_cutoff=-1).full()
                    rep.evaluations += 1
                    rep.count("br-spectrum-form")
                    if ref_form is None:
                        ref_form = Rf
                    elif np.abs(Rf - ref_form).max() > 1e-6 * (1 + np.abs(ref_form).max()):
                        viol.append(("br-spectrum-form", f"bloch_redfield_tensor with the spectrum given as {nm_} differs from the one with the same spectrum given as a function by {np.abs(Rf - ref_form).max():.2e}"))
                    T1 = qutip.brterm(H, a, sp_, fock_basis=True, sec_cutoff=-1)
                    T1 = (T1[0] if isinstance(T1, tuple) else T1).full()
                    if np.abs(T1 + qutip.liouvillian(H).full() * 0 - (ref_form - qutip.liouvillian(H).full())).max() > 1e-6 * (1 + np.abs(ref_form).max()):
                        viol.append(("br-spectrum-form:brterm", f"brterm with the spectrum given as {nm_} is not the Bloch-Redfield tensor minus the unitary part"))
                # time-dependent coupling operator with an argument, constant Hamiltonian
                at = qutip.QobjEvo([[a, lambda t, g: g * (1.0 + 0.5 * t)]], args={"g": 1.0})
                Rt = qutip.bloch_redfield_tensor(H, [[at, smooth]], fock_basis=True, sec_cutoff=-1)
                for g_, t_ in ((1.0, 0.0), (0.5, 0.4), (2.0, 0.4), (1.0, 0.4)):
                    want_t = qutip.bloch_redfield_tensor(H, [[a * (g_ * (1.0 + 0.5 * t_)), smooth]], fock_basis=True, sec_cutoff=-1).full()
                    for how, got_t in (("call-time arguments", Rt(t_, g=g_)), ("a copy with new arguments", qutip.QobjEvo(Rt, args={"g": g_})(t_))):
                        rep.evaluations += 1
                        rep.count("br-td-args")
                        if np.abs(got_t.full() - want_t).max() > 1e-7 * (1 + np.abs(want_t).max()):
                            viol.append(("br-td-args", f"Bloch-Redfield tensor of a time-dependent coupling evaluated at t={t_} with g={g_} ({how}) differs from the tensor of the coupling operator at that time by {np.abs(got_t.full() - want_t).max():.2e}"))
                # time-dependent Hamiltonian with an argument: single terms and cross terms, in the lab basis and in the
                # eigenbasis, every computation method; the term as an operator at t, applied to a state directly
                # (matmul), with the arguments replaced by themselves, and with new arguments against a fresh term
                from qutip.core.blochredfield import brcrossterm
                Hlist = [H, [a + a.dag(), "A*t"]]
                bq = 0.5 * a.dag() + a.dag() * a
                vst = qutip.operator_to_vector(qutip.rand_dm(H.shape[0], seed=int(rng.integers(1 << 30))))
                for fock, meth in itertools.product((True, False), ("sparse", "dense", "matrix")):
                    for kind in ("brterm", "brcrossterm"):
                        def mk_term(A_):
                            Ht_ = qutip.QobjEvo(Hlist, args={"A": A_})
                            if kind == "brterm":
                                out_ = qutip.brterm(Ht_, qutip.QobjEvo(a + a.dag()), qutip.coefficient(lambda t, w: 0.2 + 0.1 * np.tanh(w), args={"w": 0}), sec_cutoff=-1, fock_basis=fock, br_computation_method=meth)
                            else:
                                out_ = brcrossterm(Ht_, qutip.QobjEvo(a), qutip.QobjEvo(bq), qutip.coefficient(lambda t, w: 0.2 + 0.1 * np.tanh(w), args={"w": 0}), -1, fock, br_computation_method=meth)
                            return out_[0] if isinstance(out_, tuple) else out_
                        lab = f"{kind} (time-dependent H, fock_basis={fock}, method={meth})"
                        try:
                            R1 = mk_term(0.5)
                            t_ = 0.4
                            base_ = R1(t_).full()
                            rep.evaluations += 1
                            rep.count("br-term-routes")
                            mm = R1.matmul(t_, vst).full()
                            if fock and np.abs(mm - base_ @ vst.full()).max() > 1e-9 * (1 + np.abs(base_).max()):
                                viol.append((f"br-term-matmul:{kind}", f"{lab}: applying the term to a state (matmul) differs from applying the term evaluated at that time by {np.abs(mm - base_ @ vst.full()).max():.2e}"))
                            R1.arguments({"A": 0.5})
                            if np.abs(R1(t_).full() - base_).max() > 1e-9 * (1 + np.abs(base_).max()):
                                viol.append((f"br-term-same-args:{kind}", f"{lab}: replacing the arguments by themselves changes the term by {np.abs(R1(t_).full() - base_).max():.2e}"))
                            R1.arguments({"A": 1.25})
                            fresh_ = mk_term(1.25)(t_).full()
                            if np.abs(R1(t_).full() - fresh_).max() > 1e-9 * (1 + np.abs(fresh_).max()):
                                viol.append((f"br-term-new-args:{kind}", f"{lab}: the term with replaced arguments differs from the term built with these arguments by {np.abs(R1(t_).full() - fresh_).max():.2e}"))
                        except core.CaseTimeout:
                            raise
                        except Exception as e:
                            viol.append((f"br-term-raises:{kind}", f"{lab}: {type(e).__name__}: {e}"[:240]))
        except core.CaseTimeout:
            raise
        except Exception as e:
            viol.append(("br-raises:forms", f"{type(e).__name__}: {e}"[:200]))
        for meth, fock in itertools.product(("sparse", "dense", "matrix"), (True, False)):
            try:
                with core.time_limit(60):
                    out = qutip.bloch_redfield_tensor(H, [[a, spec]], fock_basis=fock, sec_cutoff=-1, br_computation_method=meth)
            except core.CaseTimeout:
                raise
            except Exception as e:
                viol.append((f"br-raises:{meth}", f"bloch_redfield_tensor method={meth} fock_basis={fock}: {type(e).__name__}: {e}"[:200]))
                continue
            rep.evaluations += 1
            rep.count("bloch-redfield")
            if fock:
                R = out.full()
            else:
                R, ekets = out
                # back to the Fock basis: R_fock = (U* ⊗ U) R (U^T ⊗ U^dag) with U the eigenvector matrix
                U = ekets.full() if isinstance(ekets, qutip.Qobj) else np.hstack([k.full() for k in ekets])
                S = np.kron(U.conj(), U)
                R = S @ R.full() @ S.conj().T
            if base is None:
                base = R
                n = N
                if np.abs(vec(np.eye(n)) @ R).max() > 1e-8:
                    viol.append(("br-traceless", f"Bloch-Redfield tensor (N={N}) does not conserve the trace"))
                for X in basis_ops(n):
                    lhs = (R @ vec(X)).reshape(n, n, order="F").conj().T
                    r = (R @ vec(X.conj().T)).reshape(n, n, order="F")
                    if np.abs(lhs - r).max() > 1e-8:
                        viol.append(("br-adjoint", f"Bloch-Redfield tensor (N={N}, real spectrum) does not commute with the adjoint"))
                        break
            elif np.abs(R - base).max() > 1e-7 * (1 + np.abs(base).max()):
                viol.append((f"br-route:{meth}:{'fock' if fock else 'eigen'}", f"bloch_redfield_tensor method={meth} fock_basis={fock} disagrees with the sparse/fock route (N={N})"))
        # several baths, every kind of spectrum (function, coefficient in w, bosonic and fermionic environment objects):
        # the tensor is additive in the baths, independent of their order, and the two output bases agree
        try:
            from qutip.core.environment import DrudeLorentzEnvironment, LorentzianEnvironment
            b_op = qutip.rand_herm(N, seed=int(rng.integers(1 << 30)), density=1.0)
            c_op = qutip.rand_herm(N, seed=int(rng.integers(1 << 30)), density=1.0)
            kinds = {"function": spec, "string": "0.2 * (w > 0) * w + 0.1",
                     "bosonic-environment": DrudeLorentzEnvironment(T=0.8, lam=0.1, gamma=1.2),
                     "fermionic-environment": LorentzianEnvironment(T=0.6, mu=0.2, gamma=0.15, W=1.1),
                     "fermionic-environment-2": LorentzianEnvironment(T=1.3, mu=-0.1, gamma=0.3, W=0.7)}
            names = list(kinds)
            pick = [names[int(i)] for i in rng.choice(len(names), size=3, replace=False)]
            if "fermionic-environment" not in pick:
                pick[0] = "fermionic-environment"
            baths = list(zip((a, b_op, c_op), [kinds[k] for k in pick]))

            def tensor_of(a_ops, fock):
                out = qutip.bloch_redfield_tensor(H, [list(x) for x in a_ops], fock_basis=fock, sec_cutoff=-1)
                if fock:
                    return out.full()
                Rm, ek = out
                U = ek.full() if isinstance(ek, qutip.Qobj) else np.hstack([k.full() for k in ek])
                S = np.kron(U.conj(), U)
                return S @ Rm.full() @ S.conj().T
            R0 = tensor_of([], True) if False else qutip.liouvillian(H).full()
            for fock in (True, False):
                singles = [tensor_of([bth], fock) for bth in baths]
                allb = tensor_of(baths, fock)
                rev = tensor_of(list(reversed(baths)), fock)
                rep.evaluations += 1
                rep.count("bloch-redfield-baths")
                want = sum(singles) - (len(baths) - 1) * R0
                sc_ = 1 + np.abs(want).max()
                if np.abs(allb - want).max() > 1e-7 * sc_:
                    viol.append((f"br-baths-additive:{'fock' if fock else 'eigen'}", f"Bloch-Redfield tensor with baths {pick} (fock_basis={fock}) is not the sum of the single-bath tensors (off by {np.abs(allb - want).max():.2e})"))
                if np.abs(allb - rev).max() > 1e-7 * sc_:
                    viol.append((f"br-baths-order:{'fock' if fock else 'eigen'}", f"Bloch-Redfield tensor with baths {pick} (fock_basis={fock}) depends on the order of a_ops"))
                if fock:
                    allb_f = allb
                elif np.abs(allb - allb_f).max() > 1e-7 * sc_:
                    viol.append(("br-baths-bases", f"Bloch-Redfield tensor with baths {pick}: the two output bases disagree by {np.abs(allb - allb_f).max():.2e}"))
        except core.CaseTimeout:
            raise
        except Exception as e:
            viol.append(("br-baths-raises", f"{type(e).__name__}: {e}"[:200]))
        # time-dependent Hamiltonian whose eigenvectors move: R(t) must equal the tensor of the constant H(t)
        H1 = qutip.rand_herm(N, seed=int(rng.integers(1 << 30)))
        Ht = qutip.QobjEvo([H, [H1, lambda t: np.sin(t)]])
        for fock in (True,):
            try:
                Rt = qutip.bloch_redfield_tensor(Ht, [[a, spec]], fock_basis=fock, sec_cutoff=-1)
                for t in (0.0, 0.35, 1.2):
                    Rc = qutip.bloch_redfield_tensor(Ht(t), [[a, spec]], fock_basis=fock, sec_cutoff=-1)
                    if np.abs(Rt(t).full() - Rc.full()).max() > 1e-7 * (1 + np.abs(Rc.full()).max()):
                        viol.append(("br-td-route", f"time-dependent Bloch-Redfield tensor at t={t} differs from the tensor of the constant H(t)"))
                        break
                    st = qutip.operator_to_vector(qutip.rand_dm(N, seed=3))
                    if (Rt.matmul(t, st) - Rc @ st).norm() > 1e-7:
                        viol.append(("br-td-matmul", f"time-dependent Bloch-Redfield tensor applied to a state at t={t} differs from R(t) @ state"))
                        break
                rep.evaluations += 1
            except core.CaseTimeout:
                raise
            except Exception as e:
                viol.append(("br-td-raises", f"{type(e).__name__}: {e}"[:200]))
    return viol


def run(tier, seed, replay):
    rep = core.Report(PID, tier, seed)
    rep.rule = ("random Gaussian-integer H (Hermitian or not) and 0-2 collapse operators on dims [2],[3],[4],[2,2],[2,3],[3,2] in "
                "csr/dense/dia, optional counting fields; each case checks the full operator basis and 10 construction routes; "
                "Bloch-Redfield: 3 methods x 2 bases x random 2/3-level systems + time-dependent route; non-trivial = at least "
                "one collapse operator or a non-Hermitian H")
    rep.assumptions = ["exact integer data: superoperators compared exactly (1e-9)", "Bloch-Redfield only relationally, real symmetric coupling operators, no secular cut-off"]
    core.build_repo()
    proved = core.prove(rep, ["Qv.Model.C07", "Qv.Props.C07"], "Qv.Props.C07")
    if tier == "thorough":
        core.leanchecker(rep, ["Qv.Props.C07"])
    rng = np.random.default_rng(seed)
    if replay:
        cases = [json.load(open(replay))["replay"]["case"]]
    else:
        cases = []
        d = os.path.join(core.VERIF, "corpus", PID)
        if os.path.isdir(d):
            for f in sorted(os.listdir(d)):
                cases.append(json.load(open(os.path.join(d, f)))["case"])
        cases += [gen_case(rng, tier) for _ in range(40 if tier == "quick" else 400)]
    all_lines, all_impl = [], []
    seen = set()
    for c in cases:
        try:
            with core.time_limit(120):
                lines, impl, viol = run_case(c)
        except core.CaseTimeout:
            raise
        except Exception as e:
            rep.violation(core.Violation("C07:raises", f"{type(e).__name__}: {e}"[:300], {"case": c}))
            continue
        rep.case(c, bool(c["cs"]) or not c["herm"])
        rep.count("ncs=%d" % len(c["cs"]))
        for sig, what in viol:
            if sig not in seen:
                seen.add(sig)
                rep.violation(core.Violation("C07:" + sig, what, {"case": c}))
        all_lines += lines
        all_impl += impl
    model = core.run_driver(all_lines)
    ndis, first = 0, None
    for line, want, m in zip(all_lines, all_impl, model):
        if m != want:
            ndis += 1
            if first is None:
                first = {"line": line[:500], "model": str(m)[:400], "impl": str(want)[:400]}
    rep.notes["correspondence_disagreements"] = ndis
    rep.notes["model_lines"] = len(all_lines)
    if ndis:
        rep.broken.append({"kind": "correspondence", "which": "C07.super/liouvillian", "count": ndis, "first": first})
    if not replay:
        for sig, what in bloch_redfield(rng, tier, rep):
            if sig not in seen:
                seen.add(sig)
                rep.violation(core.Violation("C07:" + sig, what, {"what": what}))
    if (ndis or not proved) and not rep.violations:
        rep.violation(core.Violation("C07:unverified", "model/proof no longer matches the code and no failing input was found",
                                     {"broken": rep.broken}, failing_input_found=False))
    return rep.finish()


if __name__ == "__main__":
    core.main(run, PID)
