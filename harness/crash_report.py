"""Called by ./check when the check's interpreter died with a signal: writes evidence, a replay and the VIOLATION line."""
import os
import sys

sys.path.insert(0, os.path.dirname(os.path.abspath(__file__)))
import core

pid, rc = sys.argv[1], int(sys.argv[2])
tier = next((a for a in sys.argv[3:] if a in ("quick", "thorough")), os.environ.get("VERIF_TIER", "quick"))
seed = int(os.environ.get("VERIF_SEED", "0") or 0)
rep = core.Report(pid, tier, seed)
rep.rule = "the run was cut short: the interpreter running the check died"
sig = rc - 128 if rc > 128 else rc
rep.broken.append({"kind": "interpreter-died", "exit_status": rc, "signal": sig})
rep.violation(core.Violation(f"{pid}:interpreter-died", f"the process running the check died with exit status {rc} (signal {sig}): compiled code of the library "
                             "corrupted memory or aborted under the inputs of this check", {"exit_status": rc, "seed": seed, "tier": tier}, failing_input_found=False))
sys.exit(rep.finish())
