"""C05 — time-dependent operators and coefficients evaluate pointwise in time.

Correspondence: random expression trees over all leaf kinds (constant, operator-coefficient pair with
function / string / sampled-array coefficients, operator-valued function) and the offered algebra
(+, -, unary -, scalar *, @, dag/trans/conj, coefficient multiple, copy, pickle, compress, format
change, argument replacement) are built with the real QobjEvo API and evaluated at integer times;
the Lean model Qv.Model.C05 evaluates the same tree exactly (Gaussian integers).  The property's own
oracle combines the *values of the leaves* at t with NumPy, and checks matmul / expect against the
value for every state storage format.
"""
import itertools
import json
import os
import pickle
import sys

import numpy as np

sys.path.insert(0, os.path.dirname(os.path.abspath(__file__)))
import core

PID = "C05"


GRIDS = {"u": list(range(-6, 7)), "a": [-6, -4, -2, 0, 2, 4, 6], "b": [-6, -5, -1, 0, 1, 5, 6], "c": [-6, -3, -2, 0, 2, 3, 6],
         # grids of the same length that differ from "a" (and from each other) by a few parts in a million: different grids
         "d": [-6, -4 * (1 + 4e-6), -2, 0, 2 * (1 + 4e-6), 4, 6], "e": [-6, -4, -2 * (1 - 4e-6), 0, 2, 4 * (1 - 4e-6), 6]}


BUILD_ARGS = {"w": 1}       # the argument values given at construction by build_real


def shared_f(t, w, a, b):
    """one python function shared by several operator-function leaves (their arguments differ)"""
    return a + (w * t) * b


def rnd_m(rng, small=True):
    hi = 3 if small else 5
    return [int(x) for x in rng.integers(-hi + 1, hi, size=8)]


def gen_tree(rng, depth, tier):
    if depth == 0 or rng.random() < 0.25:
        k = rng.random()
        if k < 0.25:
            return {"k": "const", "m": rnd_m(rng)}
        if k < 0.65:
            deg = int(rng.integers(0, 3))
            style = str(rng.choice(["func", "str", "array0", "array1", "func_args", "func_kwonly", "func_dict", "number", "constcoeff", "array0n"]))
            c = [[int(a), int(b)] for a, b in rng.integers(-2, 3, size=(deg + 1, 2))]
            if style == "array0" or style == "array1" or style == "array0n":
                c = c[:2]
            if style in ("number", "constcoeff"):
                c = c[:1]
            return {"k": "evo", "m": rnd_m(rng), "c": c, "style": style,
                    "grid": "u" if style == "array0" else (str(rng.choice(["a", "b", "c"])) if style == "array0n" else str(rng.choice(["u", "a", "b", "c", "d", "e"])))}
        return {"k": "func", "a": rnd_m(rng), "b": rnd_m(rng), "style": str(rng.choice(["plain", "args", "shared", "shared", "kwonly", "dictargs", "defaulted", "defaulted"]))}
    if rng.random() < 0.12:
        # several terms on the same operator (merged by compress), sampled on different grids
        m = rnd_m(rng)
        terms = [{"k": "evo", "m": m, "c": [[int(a), int(b)] for a, b in rng.integers(-2, 3, size=(2, 2))],
                  "style": "array1", "grid": str(rng.choice(["a", "b", "c", "a", "d", "e", "d", "u"]))} for _ in range(int(rng.integers(2, 4)))]
        node = terms[0]
        for tt in terms[1:]:
            node = {"k": "add", "x": node, "y": tt}
        return {"k": "id", "how": "compress", "x": node}
    k = str(rng.choice(["add", "sub", "mul", "mul", "neg", "smul", "smul", "tr", "tr", "tr", "id", "cmul"]))
    if k in ("add", "sub", "mul"):
        return {"k": k, "x": gen_tree(rng, depth - 1, tier), "y": gen_tree(rng, depth - 1, tier)}
    if k == "neg":
        return {"k": "neg", "x": gen_tree(rng, depth - 1, tier)}
    if k == "smul":
        return {"k": "smul", "z": [int(rng.integers(-2, 3)), int(rng.integers(-2, 3))],
                "side": str(rng.choice(["right", "left", "div"])), "x": gen_tree(rng, depth - 1, tier)}
    if k == "tr":
        return {"k": "tr", "g": str(rng.choice(["dag", "trans", "conj"])), "x": gen_tree(rng, depth - 1, tier)}
    if k == "cmul":
        return {"k": "cmul", "c": [[int(a), int(b)] for a, b in rng.integers(-2, 3, size=(2, 2))],
                "x": gen_tree(rng, depth - 1, tier)}
    return {"k": "id", "how": str(rng.choice(["copy", "pickle", "compress", "to_dense", "to_csr", "args", "linear_map_id"])),
            "x": gen_tree(rng, depth - 1, tier)}


def model_tree(node):
    """the tree sent to the Lean model: value-preserving wrappers removed, coefficient multiple as a product"""
    k = node["k"]
    if k in ("const", "func"):
        return {kk: v for kk, v in node.items() if kk != "style"}
    if k == "evo":
        out = {"k": "evo", "m": node["m"], "c": node["c"]}
        if node["style"].startswith("array"):
            out["clamp"] = [-6, 6]          # a sampled coefficient is constant outside its grid
        return out
    if k == "id":
        return model_tree(node["x"])
    if k == "cmul":
        return {"k": "mul", "x": model_tree(node["x"]), "y": {"k": "evo", "m": [1, 0, 0, 0, 0, 0, 1, 0], "c": node["c"]}}
    if k == "smul":
        return {"k": "smul", "z": node["z"], "x": model_tree(node["x"])}
    if k == "lmap":
        # a general linear map given as a Python callable: a product with a constant operator, for the model
        kc = {"k": "const", "m": node["m"]}
        return {"k": "mul", "x": kc, "y": model_tree(node["x"])} if node["side"] == "left" else {"k": "mul", "x": model_tree(node["x"]), "y": kc}
    out = {"k": k}
    for kk in ("x", "y"):
        if kk in node:
            out[kk] = model_tree(node[kk])
    if "g" in node:
        out["g"] = node["g"]
    return out


def mat(m):
    return np.array([[m[0] + 1j * m[1], m[2] + 1j * m[3]], [m[4] + 1j * m[5], m[6] + 1j * m[7]]])


def poly(c, t):
    return sum((a + 1j * b) * t ** k for k, (a, b) in enumerate(c))


def div_ok(z):
    # division by z is exact in floating point only for powers of two / units
    return z in ([1, 0], [-1, 0], [0, 1], [0, -1], [2, 0], [-2, 0], [0, 2], [0, -2])


def build_real(node):
    """returns a Qobj or QobjEvo built with the public API"""
    import qutip
    k = node["k"]
    if k == "const":
        return qutip.Qobj(mat(node["m"]))
    if k == "evo":
        q = qutip.Qobj(mat(node["m"]))
        c = node["c"]
        st = node["style"]
        if st == "func":
            return qutip.QobjEvo([[q, lambda t, c=c: poly(c, t)]])
        if st in ("number", "constcoeff"):
            # a coefficient that is a plain number / a constant Coefficient: still a coefficient
            from qutip.core.coefficient import const
            node["c"] = c[:1]
            z = complex(c[0][0], c[0][1])
            return qutip.QobjEvo([[q, z]]) if st == "number" else qutip.QobjEvo(q * const(z))
        if st == "func_args":
            return qutip.QobjEvo([[q, lambda t, w, c=c: w * poly(c, t)]], args={"w": BUILD_ARGS["w"]})
        if st == "func_kwonly":
            def f_kw(t, *, w=0):            # keyword-only parameter whose default is not the value in force
                return w * poly(c, t)
            return qutip.QobjEvo([[q, f_kw]], args={"w": BUILD_ARGS["w"]})
        if st == "func_dict":
            def f_dict(t, args):
                return args["w"] * poly(c, t)
            return qutip.QobjEvo([[q, f_dict]], args={"w": BUILD_ARGS["w"]})
        if st == "str":
            expr = " + ".join(f"({a}+{b}j)*t**{k}" for k, (a, b) in enumerate(c))
            return qutip.QobjEvo([[q, expr]])
        tl = np.array(GRIDS[node.get("grid", "u")], dtype=float)
        if st == "array0n":
            # a step function on unequally spaced sample times, with samples that vary: only looked at *at* the sample times,
            # where it takes the sample of that time (the value of the polynomial the samples were taken from)
            cc = (c + [[0, 0]])[:2]
            node["c"] = cc
            return qutip.QobjEvo([[q, np.array([poly(cc, t) for t in tl])]], tlist=tl, order=0)
        if st == "array1":
            cc = (c + [[0, 0]])[:2]
            vals = np.array([poly(cc, t) for t in tl])
            node["c"] = cc
            return qutip.QobjEvo([[q, vals]], tlist=tl, order=1)
        cc = c[:1]
        node["c"] = cc
        vals = np.array([poly(cc, t) for t in tl])
        return qutip.QobjEvo([[q, vals]], tlist=tl, order=0)
    if k == "func":
        a, b = qutip.Qobj(mat(node["a"])), qutip.Qobj(mat(node["b"]))
        if node["style"] == "args":
            return qutip.QobjEvo(lambda t, w, a=a, b=b: a + (w * t) * b, args={"w": BUILD_ARGS["w"]})
        if node["style"] == "shared":
            return qutip.QobjEvo(shared_f, args={"w": BUILD_ARGS["w"], "a": a, "b": b})
        if node["style"] == "kwonly":
            def op_kw(t, *, w=0):
                return a + (w * t) * b
            return qutip.QobjEvo(op_kw, args={"w": BUILD_ARGS["w"]})
        if node["style"] == "dictargs":
            def op_dict(t, args):
                return a + (args["w"] * t) * b
            return qutip.QobjEvo(op_dict, args={"w": BUILD_ARGS["w"]})
        if node["style"] == "defaulted":
            # a parameter with a default that is not given at construction (unless the reference object is being built)
            def op_def(t, w, shift=0):
                return a + (w * t + shift) * b
            return qutip.QobjEvo(op_def, args={k_: v_ for k_, v_ in BUILD_ARGS.items() if k_ in ("w", "shift")})
        return qutip.QobjEvo(lambda t, a=a, b=b: a + t * b)
    if k in ("add", "sub", "mul"):
        x, y = build_real(node["x"]), build_real(node["y"])
        return x + y if k == "add" else (x - y if k == "sub" else x @ y)
    if k == "lmap":
        B = qutip.Qobj(mat(node["m"]))
        x = build_real(node["x"])
        f = (lambda q, B=B: B @ q) if node["side"] == "left" else (lambda q, B=B: q @ B)
        return f(x) if isinstance(x, qutip.Qobj) else x.linear_map(f)
    if k == "neg":
        return -build_real(node["x"])
    if k == "smul":
        z = complex(node["z"][0], node["z"][1])
        x = build_real(node["x"])
        if node["side"] == "left":
            return z * x
        if node["side"] == "div" and div_ok(node["z"]):
            return x / (1 / z)
        return x * z
    if k == "tr":
        return getattr(build_real(node["x"]), node["g"])()
    if k == "cmul":
        c = node["c"]
        x = build_real(node["x"])
        co = qutip.coefficient(lambda t, c=c: poly(c, t))
        if isinstance(x, qutip.Qobj):
            return qutip.QobjEvo([x, co])
        return x * co
    if k == "id":
        x = build_real(node["x"])
        how = node["how"]
        if how == "copy":
            return x.copy()
        if how == "pickle":
            try:
                return pickle.loads(pickle.dumps(x))
            except (pickle.PicklingError, AttributeError, TypeError):
                return x          # lambdas cannot be pickled: not the property's concern
        if isinstance(x, qutip.Qobj):
            return x
        if how == "compress":
            y = x.copy()
            y.compress()
            return y
        if how == "to_dense":
            return x.to("dense")
        if how == "to_csr":
            return x.to("csr")
        if how == "args":
            return qutip.QobjEvo(x, args={"w": BUILD_ARGS["w"]})      # argument replacement with the value in force
        return x.linear_map(lambda q: q)
    raise KeyError(k)


def value_oracle(node, t):
    """the combination applied to the constituents' values at t (NumPy)"""
    k = node["k"]
    if k == "const":
        return mat(node["m"])
    if k == "evo":
        tt = min(max(t, -6), 6) if node["style"].startswith("array") else t          # (array0n is only queried at its sample times)
        return poly(node["c"], tt) * mat(node["m"])
    if k == "func":
        return mat(node["a"]) + t * mat(node["b"])
    if k == "id":
        return value_oracle(node["x"], t)
    if k == "cmul":
        return poly(node["c"], t) * value_oracle(node["x"], t)
    if k == "lmap":
        vx = value_oracle(node["x"], t)
        return mat(node["m"]) @ vx if node["side"] == "left" else vx @ mat(node["m"])
    if k == "neg":
        return -value_oracle(node["x"], t)
    if k == "smul":
        return complex(*node["z"]) * value_oracle(node["x"], t)
    if k == "tr":
        v = value_oracle(node["x"], t)
        return {"dag": v.conj().T, "trans": v.T, "conj": v.conj()}[node["g"]]
    x, y = value_oracle(node["x"], t), value_oracle(node["y"], t)
    return x + y if k == "add" else (x - y if k == "sub" else x @ y)


def as8(a):
    a = np.asarray(a)
    return [a[0, 0].real, a[0, 0].imag, a[0, 1].real, a[0, 1].imag, a[1, 0].real, a[1, 0].imag, a[1, 1].real, a[1, 1].imag]


def kinds(node, acc):
    acc.add(node["k"] + (":" + node.get("style", node.get("how", node.get("g", ""))) if node["k"] in ("evo", "func", "id", "tr") else ""))
    for kk in ("x", "y"):
        if kk in node:
            kinds(node[kk], acc)
    return acc


def run_real(case):
    import qutip
    obj = build_real(case["tree"])
    vals, extra = [], []
    psi = np.array([[1 + 2j], [3 - 1j]])
    rho = np.array([[2, 1j], [-1j, 1]], dtype=complex)
    for t in case["t"]:
        v = obj(float(t)) if isinstance(obj, qutip.QobjEvo) else obj
        V = v.full()
        vals.append(as8(V))
        if isinstance(obj, qutip.QobjEvo):
            # argument replacement (call-time, in-place on a copy, at construction) with the value in force
            alt = {"call-args": lambda: obj(float(t), w=1), "call-args-dict": lambda: obj(float(t), {"w": 1})}

            def _inplace():
                y = obj.copy()
                y.arguments(w=1)
                return y(float(t))
            alt["arguments()"] = _inplace
            for nm, fn in alt.items():
                got = fn().full()
                if np.abs(got - V).max() > 1e-9 * (1 + np.abs(V).max()):
                    extra.append(("args-" + nm, f"evaluating at t={t} with the arguments in force given again ({nm}) changes the value"))
            # evaluating with other arguments (call-time, or on a copy / a derived object) leaves this object alone
            try:
                obj(float(t), w=3)
                obj(float(t), {"w": 5})
                qutip.QobjEvo(obj, args={"w": 7})(float(t))
                y2 = obj.copy()
                y2.arguments({"w": 9})
                (obj * 2)(float(t), w=4)
            except Exception as e:      # noqa
                extra.append(("args-other-raises", f"evaluating with other arguments raises {type(e).__name__}: {e}"[:200]))
            # other argument values, however they are given, give the object built with those values
            new_args = {"w": 3, "shift": 2}
            saved = dict(BUILD_ARGS)
            try:
                BUILD_ARGS.update(new_args)
                refobj = build_real(case["tree"])
            finally:
                BUILD_ARGS.clear()
                BUILD_ARGS.update(saved)
            Vn = refobj(float(t)).full()

            def _inplace_new():
                y = obj.copy()
                y.arguments(new_args)
                return y(float(t))
            for nm, fn in (("call-kw", lambda: obj(float(t), **new_args)), ("call-dict", lambda: obj(float(t), dict(new_args))),
                           ("arguments()", _inplace_new), ("QobjEvo(obj, args=)", lambda: qutip.QobjEvo(obj, args=dict(new_args))(float(t)))):
                try:
                    got = fn().full()
                except Exception as e:      # noqa
                    extra.append(("new-args-raises-" + nm, f"evaluating with new arguments ({nm}) raises {type(e).__name__}: {e}"[:200]))
                    continue
                if np.abs(got - Vn).max() > 1e-9 * (1 + np.abs(Vn).max()):
                    extra.append(("new-args-" + nm, f"at t={t}, new argument values w=3, shift=2 given by {nm} do not give the value of the object built with them (difference {np.abs(got - Vn).max():.2e})"))
            again = obj(float(t)).full()
            if np.abs(again - V).max() > 1e-9 * (1 + np.abs(V).max()):
                extra.append(("args-leak", f"after evaluating with other arguments, Q({t}) itself changed by {np.abs(again - V).max():.2e}"))
            for fmt in ("dense", "csr"):
                st = qutip.Qobj(psi).to(fmt)
                got = obj.matmul(float(t), st).full()
                if np.abs(got - V @ psi).max() > 1e-9 * (1 + np.abs(V).max()):
                    extra.append(("matmul-" + fmt, f"QobjEvo.matmul(t={t}) differs from Q(t) @ state"))
                ex = obj.expect(float(t), st)
                want = (psi.conj().T @ V @ psi)[0, 0]
                if abs(ex - want) > 1e-9 * (1 + abs(want)):
                    extra.append(("expect-ket-" + fmt, f"QobjEvo.expect(t={t}, ket)={ex} but <psi|Q(t)|psi>={want}"))
                dm = qutip.Qobj(rho).to(fmt)
                ex = obj.expect(float(t), dm)
                want = np.trace(V @ rho)
                if abs(ex - want) > 1e-9 * (1 + abs(want)):
                    extra.append(("expect-dm-" + fmt, f"QobjEvo.expect(t={t}, dm)={ex} but tr(Q(t) rho)={want}"))
            # superoperators built from the object, applied to and averaged over an operator that is neither symmetric nor
            # Hermitian, held in either memory order or sparsely: tr(S(t)[X]) and S(t) vec(X) with column stacking
            if V.shape[0] == V.shape[1] and V.shape[0] <= 4 and not obj.issuper:
                d_ = V.shape[0]
                Xm = (np.arange(d_ * d_).reshape(d_, d_) % 5 - 2) + 1j * ((np.arange(d_ * d_).reshape(d_, d_) * 3) % 7 - 3)
                supers = {"spre": (qutip.spre(obj), lambda X: V @ X), "spost": (qutip.spost(obj), lambda X: X @ V),
                          "sprepost": (qutip.sprepost(obj, obj.dag()), lambda X: V @ X @ V.conj().T)}
                states = {"dense-C": qutip.Qobj(np.ascontiguousarray(Xm)), "dense-F": qutip.Qobj(np.asfortranarray(Xm)).to("dense"), "csr": qutip.Qobj(Xm).to("csr"),
                          "dense-C-from-csr": qutip.Qobj(Xm).to("csr").to("dense")}
                for sname, (Sop, ref_) in supers.items():
                    for stname, Xq in states.items():
                        try:
                            ex = Sop.expect(float(t), Xq)
                            mm = Sop.matmul(float(t), qutip.operator_to_vector(Xq)).full().ravel()
                        except Exception as e:      # noqa
                            extra.append((f"super-expect-raises-{sname}", f"{sname}(Q).expect / matmul with an operator state ({stname}) raises {type(e).__name__}: {e}"[:200]))
                            continue
                        want = np.trace(ref_(Xm))
                        if abs(ex - want) > 1e-9 * (1 + abs(want)):
                            extra.append((f"super-expect-{sname}-{stname}", f"{sname}(Q).expect(t={t}, X) = {ex} for an operator X held as {stname}, but tr of the map applied to X is {want}"))
                        if np.abs(mm - ref_(Xm).reshape(-1, order="F")).max() > 1e-9 * (1 + np.abs(V).max() ** 2 * 10):
                            extra.append((f"super-matmul-{sname}-{stname}", f"{sname}(Q).matmul(t={t}, vec(X)) for X held as {stname} is not the column-stacked map applied to X"))
    return vals, extra, obj


def shrink(case, bad):
    """replace subtrees by their children while the failure persists"""
    def variants(node):
        for kk in ("x", "y"):
            if kk in node:
                yield node[kk]
        for kk in ("x", "y"):
            if kk in node:
                for v in variants(node[kk]):
                    n2 = dict(node)
                    n2[kk] = v
                    yield n2
    cur = case
    changed = True
    while changed:
        changed = False
        for v in variants(cur["tree"]):
            cand = {"t": cur["t"], "tree": v}
            try:
                if bad(cand):
                    cur, changed = cand, True
                    break
            except Exception:
                pass
    return cur


def run(tier, seed, replay):
    rep = core.Report(PID, tier, seed)
    rep.rule = ("random expression trees (depth <= 4 quick / 6 thorough) over constant / pair (function, function+args, "
                "string, sampled order 0/1) / operator-function leaves with Gaussian-integer 2x2 operators, the algebra "
                "+ - neg scalar* @ dag trans conj coefficient* copy pickle compress to() args; 5 integer times inside and "
                "outside the sampled range; non-trivial = tree with a time-dependent leaf and at least two operations")
    rep.assumptions = ["exactly representable data (Gaussian integers, integer times): float arithmetic is exact, values are compared exactly (1e-9)",
                       "string coefficients are polynomials in t; transcendental vocabulary is C06's"]
    core.build_repo()
    proved = core.prove(rep, ["Qv.Model.C05", "Qv.Proofs.C05", "Qv.Props.C05"], "Qv.Props.C05")
    if tier == "thorough":
        core.leanchecker(rep, ["Qv.Props.C05"])
    rng = np.random.default_rng(seed)
    if replay:
        cases = [json.load(open(replay))["replay"]["case"]]
    else:
        cases = []
        d = os.path.join(core.VERIF, "corpus", PID)
        if os.path.isdir(d):
            for f in sorted(os.listdir(d)):
                cases.append(json.load(open(os.path.join(d, f)))["case"])
        # structured family: a transformed product (with an operator-valued function and a complex coefficient) as the
        # right, left or inner factor of another product — the shapes the superoperator constructors build
        def leaf_func():
            return {"k": "func", "a": rnd_m(rng), "b": rnd_m(rng), "style": str(rng.choice(["plain", "args", "kwonly"]))}

        def leaf_cplx():
            return {"k": "evo", "m": rnd_m(rng), "c": [[int(rng.integers(-2, 3)), int(rng.integers(1, 3))], [int(rng.integers(-2, 3)), int(rng.integers(-2, 3))]],
                    "style": str(rng.choice(["func", "str", "func_args"])), "grid": "u"}
        for _ in range(40 if tier == "quick" else 300):
            inner = {"k": "mul", "x": leaf_func(), "y": leaf_cplx()} if rng.random() < 0.5 else {"k": "mul", "x": leaf_cplx(), "y": leaf_func()}
            if rng.random() < 0.3:
                inner = {"k": "smul", "z": [int(rng.integers(-2, 3)), int(rng.integers(1, 3))], "side": "left", "x": inner}
            tr_ = {"k": "tr", "g": str(rng.choice(["dag", "conj", "trans", "dag"])), "x": inner}
            outer_k = gen_tree(rng, 1, tier)
            shape_ = int(rng.integers(0, 4))
            tree = [{"k": "mul", "x": outer_k, "y": tr_}, {"k": "mul", "x": tr_, "y": outer_k},
                    {"k": "mul", "x": outer_k, "y": {"k": "mul", "x": tr_, "y": gen_tree(rng, 1, tier)}},
                    {"k": "tr", "g": "dag", "x": {"k": "mul", "x": outer_k, "y": tr_}}][shape_]
            ts = sorted(set(int(x) for x in rng.integers(-5, 6, size=3)))
            cases.append({"t": ts, "tree": tree})
        # second structured family: the same involution (adjoint, transpose, conjugate) on both sides of a map that does not
        # commute with it - a product with a constant operator on the left or on the right, a complex factor - on leaves that
        # are operator-valued functions (whose pending maps are kept on a stack)
        def konst():
            return {"k": "const", "m": rnd_m(rng)}

        def wrap(kind_, x_):
            if kind_ == "left":
                return {"k": "mul", "x": konst(), "y": x_}
            if kind_ == "right":
                return {"k": "mul", "x": x_, "y": konst()}
            if kind_ == "both":
                return {"k": "mul", "x": konst(), "y": {"k": "mul", "x": x_, "y": konst()}}
            if kind_ in ("lmap-left", "lmap-right"):
                return {"k": "lmap", "m": rnd_m(rng), "side": kind_.split("-")[1], "x": x_}
            return {"k": "smul", "z": [int(rng.integers(-2, 3)), int(rng.integers(1, 3))], "side": "left", "x": x_}
        for g1, g2 in itertools.product(("dag", "trans", "conj"), repeat=2):
            for kind_ in ("left", "right", "both", "smul", "lmap-left", "lmap-right"):
                if tier == "quick" and g1 != g2 and rng.random() < 0.5:
                    continue
                leaf = leaf_func() if rng.random() < 0.8 else leaf_cplx()
                t1 = {"k": "tr", "g": g2, "x": wrap(kind_, {"k": "tr", "g": g1, "x": leaf})}
                t2 = {"k": "tr", "g": g1, "x": wrap(str(rng.choice(["left", "right", "smul", "lmap-left", "lmap-right"])), t1)}
                for tree in (t1, t2):
                    cases.append({"t": sorted(set(int(x) for x in rng.integers(-5, 6, size=3))), "tree": tree})
        n = 250 if tier == "quick" else 2500
        for _ in range(n):
            depth = int(rng.integers(1, 5 if tier == "quick" else 7))
            ts = sorted(set(int(x) for x in rng.integers(-5, 6, size=4))) + [int(rng.choice([-9, 8, 11]))]
            cases.append({"t": ts, "tree": gen_tree(rng, depth, tier)})
    def step_grids(node, acc):
        if isinstance(node, dict):
            if node.get("k") == "evo" and node.get("style") == "array0n":
                acc.append(set(GRIDS[node["grid"]]))
            for vv in node.values():
                step_grids(vv, acc)
        return acc
    for c in cases:
        gs = step_grids(c["tree"], [])
        if gs:
            common = sorted(set.intersection(*gs))
            c["t"] = [int(x) for x in common if -6 <= x <= 6]
    reals = []
    for c in cases:
        try:
            with core.time_limit(60):
                vals, extra, _ = run_real(c)      # note: build_real normalises sampled-coefficient degrees in place
            reals.append((vals, extra))
        except core.CaseTimeout:
            raise
        except Exception as e:
            reals.append(("raise", f"{type(e).__name__}: {e}"[:200]))
    model = core.run_driver(["C05.tree " + json.dumps({"t": c["t"], "tree": model_tree(c["tree"])}) for c in cases])
    ndis, first = 0, None
    for c, r, m in zip(cases, reals, model):
        ks = kinds(c["tree"], set())
        td = any(k.startswith("evo") or k.startswith("func") or k == "cmul" for k in ks)
        nops = sum(1 for k in ks if not (k.startswith("evo") or k.startswith("func") or k == "const"))
        rep.case(c, td and nops >= 2)
        for k in ks:
            rep.count(k)
        if r[0] == "raise":
            rep.count("impl-raises")
            rep.violation(core.Violation("C05:raises", r[1], {"case": c}))
            continue
        vals, extra = r
        sigs = set()
        for t, v in zip(c["t"], vals):
            want = as8(value_oracle(c["tree"], t))
            if max(abs(a - b) for a, b in zip(v, want)) > 1e-9 * (1 + max(abs(x) for x in want)):
                sigs.add(("value", f"Q({t}) = {v} but the combination of the constituents' values is {want}"))
                break
        for s in extra:
            sigs.add(s)
        for sig, what in sigs:
            def bad(cc, sig=sig):
                vv, ee, _ = run_real(cc)
                if sig == "value":
                    return any(max(abs(a - b) for a, b in zip(v, as8(value_oracle(cc["tree"], t)))) > 1e-9 * (1 + max(abs(x) for x in v))
                               for t, v in zip(cc["t"], vv))
                return any(s == sig for s, _ in ee)
            small = shrink(c, bad)
            rep.violation(core.Violation("C05:" + sig, what, {"case": small}))
        ok = "values" in m and len(m["values"]) == len(vals) and all(
            max(abs(a - b) for a, b in zip(mv, rv)) <= 1e-9 * (1 + max(abs(x) for x in rv)) for mv, rv in zip(m["values"], vals))
        if not ok:
            ndis += 1
            if first is None:
                first = {"case": c, "model": m, "impl": vals}
    # terms whose operators are tiny (equal within the absolute tolerance of Qobj.__eq__, not equal) keep their own
    # coefficients: the value is the sum of the terms, with and without compression
    try:
        import qutip
        for sc_ in (1e-13, 1e-15, 1.0):
            terms_ = [[sc_ * qutip.sigmax(), f"{1 / sc_!r}*t"], [sc_ * qutip.sigmay(), f"{1 / sc_!r}*t**2"], [sc_ * qutip.sigmaz(), f"{1 / sc_!r}"]]
            tt = 2.0
            want_ = (tt * qutip.sigmax() + tt ** 2 * qutip.sigmay() + qutip.sigmaz()).full()
            rep.evaluations += 1
            rep.count("tiny-operators")
            for how_, q_ in (("default", qutip.QobjEvo(terms_)), ("compress=False", qutip.QobjEvo(terms_, compress=False)), ("sum of objects", qutip.QobjEvo(terms_[0]) + qutip.QobjEvo(terms_[1]) + qutip.QobjEvo(terms_[2]))):
                got_ = q_(tt).full()
                if np.abs(got_ - want_).max() > 1e-9:
                    rep.violation(core.Violation("C05:tiny-operators-merged", f"a QobjEvo of three terms whose operators have entries of size {sc_:g} ({how_}) evaluates to {got_.tolist()} at t={tt}, the sum of its terms is {want_.tolist()}", {"scale": sc_, "how": how_}))
                    break
    except Exception as e:
        rep.violation(core.Violation("C05:tiny-operators-raises", f"{type(e).__name__}: {e}"[:300], {}))
    # objects that are not square (ket-, bra- or rectangular-valued): adjoint and transpose have the shape of their value,
    # compose with the original, and a number cannot be added; an object added to itself is twice itself
    try:
        import qutip
        for shp in ((3, 1), (1, 3), (2, 3)):
            A0 = qutip.Qobj(np.arange(shp[0] * shp[1]).reshape(shp) + 1j)
            A1 = qutip.Qobj((np.arange(shp[0] * shp[1]).reshape(shp) % 3) * 1j + 2)
            R = qutip.QobjEvo([A0, [A1, "t + 1j"]])
            rep.evaluations += 1
            rep.count("non-square")
            for nm_, Rx, ref_ in (("dag", R.dag(), lambda X: X.conj().T), ("trans", R.trans(), lambda X: X.T)):
                tt = 0.7
                want = ref_(R(tt).full())
                if tuple(Rx.shape) != want.shape or Rx(tt).full().shape != want.shape or np.abs(Rx(tt).full() - want).max() > 1e-12:
                    rep.violation(core.Violation(f"C05:non-square-{nm_}", f"{nm_}() of a {shp[0]}x{shp[1]}-valued QobjEvo reports the shape {tuple(Rx.shape)} (value shape {want.shape}) or the wrong value", {"shape": list(shp)}))
                    continue
                if shp[0] != 1 and shp[1] != 1 or nm_ == "dag":
                    try:
                        if shp[1] != 1 or True:
                            prod_ = (R @ Rx)(tt).full() if nm_ == "dag" and shp[0] != 1 else None      # 1x1-valued products are scalars, not objects
                            if prod_ is not None and np.abs(prod_ - R(tt).full() @ want).max() > 1e-9:
                                rep.violation(core.Violation("C05:non-square-product", f"Q @ Q.dag() of a {shp[0]}x{shp[1]}-valued QobjEvo is not the product of the values", {"shape": list(shp)}))
                        st_ = qutip.Qobj(np.eye(want.shape[1]))
                        mm_ = Rx.matmul(tt, st_).full()
                        if np.abs(mm_ - want).max() > 1e-9:
                            rep.violation(core.Violation(f"C05:non-square-matmul-{nm_}", f"Q.{nm_}().matmul(t, 1) of a {shp[0]}x{shp[1]}-valued QobjEvo is not its value", {"shape": list(shp)}))
                    except Exception as e:
                        rep.violation(core.Violation(f"C05:non-square-{nm_}-raises", f"using {nm_}() of a {shp[0]}x{shp[1]}-valued QobjEvo: {type(e).__name__}: {e}"[:240], {"shape": list(shp)}))
            for nm_, fn_ in (("Q + 1", lambda: R + 1), ("1 + Q", lambda: 1 + R), ("Q - 2", lambda: R - 2)):
                try:
                    fn_()
                    rep.violation(core.Violation("C05:non-square-plus-number", f"{nm_} for a {shp[0]}x{shp[1]}-valued QobjEvo is accepted", {"shape": list(shp)}))
                except (TypeError, ValueError):
                    pass
        with core.time_limit(60):
            Qs_ = qutip.QobjEvo([qutip.sigmaz(), [qutip.sigmax(), "t"]])
            Vs_ = Qs_(0.9).full()
            Qs_ += Qs_
            if np.abs(Qs_(0.9).full() - 2 * Vs_).max() > 1e-12:
                rep.violation(core.Violation("C05:iadd-self", "Q += Q does not give twice Q", {}))
    except core.CaseTimeout:
        rep.violation(core.Violation("C05:iadd-self-hangs", "Q += Q does not return (it appends to the list of terms it is walking through)", {}))
    except Exception as e:
        rep.violation(core.Violation("C05:non-square-raises", f"{type(e).__name__}: {e}"[:300], {}))
    # pickled objects (what worker processes receive) with sampled coefficients on grids that are uniform only within the
    # tolerance of the uniformity detection - linspace with a non-zero start, a slowly drifting clock, float32 time stamps:
    # the unpickled object is the same function, at the samples, next to them and in between
    try:
        import qutip
        grids = {"linspace-from-0.3": np.linspace(0.3, 2.1, 19), "linspace-negative-start": np.linspace(-1.7, 0.9, 27),
                 "drifting": np.cumsum(np.concatenate([[0.11], 0.1 * (1 + 3e-6 * np.arange(30))])),
                 "float32-stamps": np.linspace(0.1, 3.1, 31).astype(np.float32).astype(float)}
        for gname, tg in grids.items():
            sg = (np.arange(len(tg)) % 5 - 2) + 1j * (np.arange(len(tg)) % 3)
            for order_ in (0, 1, 3):
                Qg = qutip.QobjEvo([qutip.sigmaz(), [qutip.sigmax(), qutip.coefficient(sg, tlist=tg, order=order_)]])
                Qp = pickle.loads(pickle.dumps(Qg))
                Qs = pickle.loads(pickle.dumps(Qg + Qg.dag() * 0.5))
                rep.evaluations += 1
                rep.count("pickled-sampled-coefficient")
                qs_ = np.concatenate([tg, np.nextafter(tg, -np.inf), np.nextafter(tg, np.inf), (tg[:-1] + tg[1:]) / 2])
                for q_ in qs_:
                    a_, b_ = Qg(float(q_)).full(), Qp(float(q_)).full()
                    c_, d_ = (Qg + Qg.dag() * 0.5)(float(q_)).full(), Qs(float(q_)).full()
                    if np.abs(a_ - b_).max() > 0 or np.abs(c_ - d_).max() > 0:
                        rep.violation(core.Violation(f"C05:pickle-sampled:{gname}:order{order_}", f"a pickled QobjEvo with an order {order_} sampled coefficient on the grid '{gname}' differs from the original at t={float(q_)!r} by {max(np.abs(a_ - b_).max(), np.abs(c_ - d_).max()):.2e}",
                                                     {"grid": tg.tolist(), "order": order_, "t": float(q_)}))
                        break
    except core.CaseTimeout:
        raise
    except Exception as e:
        rep.violation(core.Violation("C05:pickle-sampled-raises", f"{type(e).__name__}: {e}"[:300], {}))
    rep.notes["correspondence_disagreements"] = ndis
    if ndis:
        rep.broken.append({"kind": "correspondence", "which": "C05.tree", "count": ndis, "first": first})
    if (ndis or not proved) and not rep.violations:
        rep.violation(core.Violation("C05:unverified", "model/proof no longer matches the code and no failing input was found",
                                     {"broken": rep.broken}, failing_input_found=False))
    return rep.finish()


if __name__ == "__main__":
    core.main(run, PID)
