"""C12 — result objects report exactly what was computed, aligned with the time list.

The option space is finite: every solver x result options x form of the expectation input is run on
a small system.  Structure (lengths, keys and order, which attributes are filled) is compared with
the Lean model Qv.Model.C12 of `Result._post_init` / `Result.add` / the `Solver.run` loop; the
property's own oracle checks alignment (`expect[k][i]` = e_op on the state at time i, stored states
hold the value of *their* time although integrators reuse buffers, final state = last state,
auxiliary outputs under the attribute that names them).
"""
import itertools
import json
import os
import sys

import numpy as np

sys.path.insert(0, os.path.dirname(os.path.abspath(__file__)))
import core

PID = "C12"
TL = [0.0, 0.3, 0.7, 1.1]

EOPS_FORMS = ["none", "single", "list1", "list2", "dict", "callback", "qobjevo", "mixed"]
STORE = [(None, False), (None, True), (True, False), (True, True), (False, False), (False, True)]


def make_eops(form):
    import qutip
    sz, sx = qutip.sigmaz(), qutip.sigmax()
    cb = lambda t, state: float(np.real(qutip.expect(sz, getattr(state, 'rho', state)))) + t   # noqa: E731 (HEOM hands the hierarchy state)
    evo = qutip.QobjEvo([sz, [sx, lambda t: t]])
    return {"none": None, "single": sz, "list1": [sz], "list2": [sz, sx], "dict": {"zz": sz, "xx": sx},
            "callback": [cb], "qobjevo": [evo], "mixed": {"a": sz, "b": cb, "c": evo}}[form]


def eop_value(op, t, state):
    """the expectation operation evaluated on a state (independent re-evaluation)"""
    import qutip
    if isinstance(op, qutip.QobjEvo):
        return qutip.expect(op(t), state)
    if isinstance(op, qutip.Qobj):
        return qutip.expect(op, state)
    return op(t, state)


def expected_keys(form):
    return {"none": [], "single": [0], "list1": [0], "list2": [0, 1], "dict": ["zz", "xx"],
            "callback": [0], "qobjevo": [0], "mixed": ["a", "b", "c"]}[form]


def solvers():
    import qutip
    H = 0.7 * qutip.sigmax() + 0.4 * qutip.sigmaz()
    c = [0.5 * qutip.sigmam()]
    psi0 = (qutip.basis(2, 0) + 0.5j * qutip.basis(2, 1)).unit()
    rho0 = qutip.ket2dm(psi0)
    out = {}

    def opts(ss, sf, **kw):
        o = {"store_states": ss, "store_final_state": sf, "progress_bar": ""}
        o.update(kw)
        return o
    out["sesolve"] = lambda e, ss, sf, kw: qutip.sesolve(H, psi0, TL, e_ops=e, options=opts(ss, sf, **kw))
    out["sesolve_operator"] = lambda e, ss, sf, kw: qutip.sesolve(H, qutip.Qobj(np.eye(2, dtype=complex)), TL, e_ops=e, options=opts(ss, sf, **kw))
    out["mesolve"] = lambda e, ss, sf, kw: qutip.mesolve(H, rho0, TL, c_ops=c, e_ops=e, options=opts(ss, sf, **kw))
    out["mesolve_ket"] = lambda e, ss, sf, kw: qutip.mesolve(H, psi0, TL, c_ops=c, e_ops=e, options=opts(ss, sf, **kw))
    out["brmesolve"] = lambda e, ss, sf, kw: qutip.brmesolve(H, rho0, TL, a_ops=[[qutip.sigmax(), lambda w: 0.1 * (w > 0)]],
                                                           e_ops=e, options=opts(ss, sf, **kw))
    out["krylov"] = lambda e, ss, sf, kw: qutip.krylovsolve(H, psi0, TL, krylov_dim=2, e_ops=e, options=opts(ss, sf, **kw))

    def flo(e, ss, sf, kw):
        Ht = [H, [qutip.sigmax(), "sin(2*pi*t)"]]
        return qutip.fsesolve(Ht, psi0, TL, e_ops=e, T=1.0, options=opts(ss, sf, **kw))
    out["fsesolve"] = flo

    def heom(e, ss, sf, kw):
        from qutip.solver.heom import HEOMSolver, DrudeLorentzBath
        bath = DrudeLorentzBath(qutip.sigmaz(), lam=0.05, gamma=0.5, T=1.0, Nk=1)
        o = opts(ss, sf, **kw)
        return HEOMSolver(H, bath, 2, options=o).run(rho0, TL, e_ops=e)
    out["heom"] = heom
    return out, H, c, psi0, rho0


def check_single(name, form, ss, sf, kw, res, problems, state_kind):
    """oracle for a single-trajectory result"""
    import qutip
    eops = make_eops(form)
    keys = expected_keys(form)
    T = len(TL)

    def P(sig, what):
        problems.append((f"{sig}:{name}", f"{name} e_ops={form} store_states={ss} store_final_state={sf} {kw}: {what}"))
    if len(res.times) != len(TL) or np.abs(np.asarray(res.times, dtype=float) - np.asarray(TL)).max() > 1e-9:
        P("times", f"times {list(res.times)} != requested {TL}")
    if list(res.e_data.keys()) != keys:
        P("keys", f"e_data keys {list(res.e_data.keys())} expected {keys}")
    if len(res.expect) != len(keys):
        P("keys", f"{len(res.expect)} expectation lists for {len(keys)} operations")
    for k, e in zip(keys, res.expect):
        if len(e) != T:
            P("expect-length", f"expect[{k}] has {len(e)} entries for {T} times")
    stored = (ss is True) or (ss is None and form == "none")
    if stored and len(res.states) != T:
        P("states-stored", f"{len(res.states)} states stored, expected {T}")
    if not stored and len(res.states) != 0:
        P("states-stored", f"{len(res.states)} states stored although not requested")
    want_final = sf or stored
    if want_final and res.final_state is None:
        P("final-state", "final_state is None although requested / states stored")
    if not want_final and res.final_state is not None:
        P("final-state", "final_state available although neither requested nor states stored")
    if stored and len(res.states) == T:
        if res.final_state is not None and (res.final_state - res.states[-1]).norm() > 1e-12:
            P("final-state", "final_state differs from the last stored state")
        # entry k of every expectation list belongs to time k
        ops = list(eops.values()) if isinstance(eops, dict) else ([eops] if isinstance(eops, qutip.Qobj) else (eops or []))
        for k, (op, e) in enumerate(zip(ops, res.expect)):
            for i, t in enumerate(TL):
                st = res.states[i]
                v = eop_value(op, t, st)
                if abs(v - e[i]) > 1e-8 * (1 + abs(v)):
                    P("expect-alignment", f"expect[{keys[k]}][{i}]={e[i]} but the operation on states[{i}] gives {v}")
                    break
    return stored


def run_matrix(rep, tier):
    import qutip
    problems = []
    structure = []      # (case descriptor for the model, observed structure)
    sol, H, c, psi0, rho0 = solvers()
    names = list(sol)
    forms = EOPS_FORMS if tier == "thorough" else ["none", "single", "list2", "dict", "mixed"]
    ref_cache = {}
    for name in names:
        methods = [{}]
        if name in ("sesolve", "sesolve_operator", "mesolve", "heom") and tier == "thorough":
            methods = [{}, {"method": "vern7"}, {"method": "lsoda"}, {"method": "bdf"}, {"method": "dop853"}]
        elif name in ("sesolve", "sesolve_operator", "mesolve", "heom"):
            methods = [{}, {"method": "vern7"}, {"method": "lsoda"}]
        for form, (ss, sf), kw in itertools.product(forms, STORE, methods):
            extra = dict(kw)
            if name == "heom":
                for store_ados in (False, True):
                    extra2 = dict(extra, store_ados=store_ados)
                    _one(rep, sol, name, form, ss, sf, extra2, problems, structure, ref_cache)
            else:
                _one(rep, sol, name, form, ss, sf, extra, problems, structure, ref_cache)
    return problems, structure


def _one(rep, sol, name, form, ss, sf, kw, problems, structure, ref_cache):
    import qutip
    try:
        with core.time_limit(120):
            res = sol[name](make_eops(form), ss, sf, kw)
    except core.CaseTimeout:
        raise
    except Exception as e:
        problems.append((f"raises:{name}", f"{name} e_ops={form} ss={ss} sf={sf} {kw}: {type(e).__name__}: {e}"[:300]))
        return
    rep.evaluations += 1
    rep.nontrivial.add(core.chash([name, form, ss, sf, kw]))
    rep.count("solver=" + name)
    rep.count("eops=" + form)
    if len(rep.samples) < 4:
        rep.samples.append({"solver": name, "e_ops": form, "store_states": ss, "store_final_state": sf, "options": kw})
    stored = check_single(name, form, ss, sf, kw, res, problems, None)
    structure.append(({"nEops": len(expected_keys(form)), "ss": ss, "sf": sf, "T": len(TL)},
                      {"ntimes": len(res.times), "nstates": len(res.states), "final": res.final_state is not None,
                       "nexpect": [len(e) for e in res.expect]}))
    # the values must not depend on what is stored: compare expectations with the all-storing reference
    key = (name, form, json.dumps(kw, sort_keys=True))
    if key not in ref_cache:
        kw_ref = dict(kw)
        if name == "heom":
            kw_ref["store_ados"] = True
        ref_cache[key] = sol[name](make_eops(form), True, True, kw_ref)
    ref = ref_cache[key]
    for k, (a, b) in enumerate(zip(res.expect, ref.expect)):
        if len(a) == len(b) and np.abs(np.asarray(a) - np.asarray(b)).max() > 1e-7:
            problems.append((f"expect-depends-on-storage:{name}", f"{name} e_ops={form} ss={ss} sf={sf} {kw}: expect[{k}] differs from the run that stores everything"))
    if res.final_state is not None and (res.final_state - ref.states[-1]).norm() > 1e-7:
        problems.append((f"final-state-value:{name}", f"{name} e_ops={form} ss={ss} sf={sf} {kw}: final_state is not the state at the last time"))
    if name == "heom":
        sa = kw.get("store_ados")
        if sa:
            if stored:
                if len(res.ado_states) != len(TL):
                    problems.append(("heom-ado-length", f"heom ss={ss} sf={sf} {kw}: {len(res.ado_states)} ado_states for {len(TL)} times"))
                else:
                    for i in range(len(TL)):
                        r0 = res.ado_states[i].extract(0)
                        if (r0 - res.states[i]).norm() > 1e-10:
                            problems.append(("heom-ado-alignment", f"heom ss={ss} sf={sf} {kw}: ado_states[{i}] does not belong to time {i} (its system block differs from states[{i}] by {(r0 - res.states[i]).norm():.2e})"))
                            break
                        rr = ref.ado_states[i]._ado_state if hasattr(ref.ado_states[i], "_ado_state") else None
                        mine = res.ado_states[i]._ado_state if hasattr(res.ado_states[i], "_ado_state") else None
                        if rr is not None and mine is not None and np.abs(rr - mine).max() > 1e-7:
                            problems.append(("heom-ado-alignment", f"heom ss={ss} sf={sf} {kw}: auxiliary part of ado_states[{i}] is not the hierarchy state of time {i}"))
                            break
            fa = res.final_ado_state
            if (sf or stored):
                if fa is None or not hasattr(fa, "extract"):
                    problems.append(("heom-final-ado", f"heom ss={ss} sf={sf} {kw}: final_ado_state is {type(fa).__name__}, not the hierarchy state"))
                elif (fa.extract(0) - ref.states[-1]).norm() > 1e-7:
                    problems.append(("heom-final-ado", f"heom ss={ss} sf={sf} {kw}: final_ado_state is not the hierarchy state of the last time"))
        else:
            if getattr(res, "ado_states", None):
                problems.append(("heom-ado-stored", f"heom {kw}: ado_states filled although store_ados is off"))


def run_multitraj(rep, tier, problems):
    """Monte-Carlo and stochastic results: per-trajectory and averaged outputs aligned, auxiliary records present"""
    import qutip
    H = 0.7 * qutip.sigmax() + 0.4 * qutip.sigmaz()
    cops = [0.8 * qutip.sigmam(), 0.3 * qutip.sigmaz()]
    psi0 = (qutip.basis(2, 0) + 0.5j * qutip.basis(2, 1)).unit()
    T = len(TL)
    ntraj = 3
    forms = ["none", "list2", "dict"]
    by_keep = {}
    for form, (ss, sf), keep in itertools.product(forms, STORE, (False, True)):
        keys = expected_keys(form)
        for name in ("mcsolve", "ssesolve", "smesolve", "nm_mcsolve"):
            o = {"store_states": ss, "store_final_state": sf, "keep_runs_results": keep, "progress_bar": "", "map": "serial"}
            try:
                with core.time_limit(120):
                    if name == "mcsolve":
                        res = qutip.mcsolve(H, psi0, TL, cops, e_ops=make_eops(form), ntraj=ntraj, seeds=7, options=o)
                    elif name == "nm_mcsolve":
                        res = qutip.nm_mcsolve(H, psi0, TL, ops_and_rates=[(qutip.sigmam(), lambda t: 0.4 - 0.6 * np.sin(3 * t))],
                                               e_ops=make_eops(form), ntraj=ntraj, seeds=7, options=o)
                    elif name == "ssesolve":
                        o2 = dict(o, store_measurement=True, dt=0.05)
                        res = qutip.ssesolve(H, psi0, TL, sc_ops=cops[:1], e_ops=make_eops(form), ntraj=ntraj, seeds=7, options=o2)
                    else:
                        o2 = dict(o, store_measurement=True, dt=0.05)
                        res = qutip.smesolve(H, qutip.ket2dm(psi0), TL, sc_ops=cops[:1], c_ops=cops[1:], e_ops=make_eops(form),
                                             ntraj=ntraj, seeds=7, options=o2)
            except core.CaseTimeout:
                raise
            except Exception as e:
                problems.append((f"raises:{name}", f"{name} e_ops={form} ss={ss} sf={sf} keep={keep}: {type(e).__name__}: {e}"[:300]))
                continue
            rep.evaluations += 1
            rep.nontrivial.add(core.chash([name, form, ss, sf, keep]))
            rep.count("solver=" + name)
            by_keep[(name, form, ss, sf, keep)] = res

            def P(sig, what):
                problems.append((f"{sig}:{name}", f"{name} e_ops={form} store_states={ss} store_final_state={sf} keep_runs_results={keep}: {what}"))
            if len(res.times) != len(TL) or np.abs(np.asarray(res.times, dtype=float) - np.asarray(TL)).max() > 1e-9:
                P("times", f"times {list(res.times)}")
            if list(res.e_data.keys()) != keys or list(res.average_e_data.keys()) != keys:
                P("keys", f"e_data keys {list(res.e_data.keys())} / average {list(res.average_e_data.keys())} expected {keys}")
            for k, e in zip(keys, res.average_expect):
                if len(e) != T:
                    P("expect-length", f"average_expect[{k}] has {len(e)} entries")
            if res.num_trajectories != ntraj or len(res.seeds) != ntraj:
                P("ntraj", f"num_trajectories={res.num_trajectories}, {len(res.seeds)} seeds for {ntraj} trajectories")
            stored = (ss is True) or (ss is None and form == "none")
            if keep:
                if len(res.trajectories) != ntraj:
                    P("keep-runs", f"{len(res.trajectories)} trajectories kept")
                for k, e in zip(keys, res.runs_expect):
                    if np.shape(e) != (ntraj, T):
                        P("expect-length", f"runs_expect[{k}] has shape {np.shape(e)} expected {(ntraj, T)}")
                if stored and (res.runs_states is None or len(res.runs_states) != ntraj or any(len(s) != T for s in res.runs_states)):
                    P("states-stored", "runs_states missing / wrong shape")
                # per-run expectation = e_op on the per-run state, and the average is their mean
                if stored and res.runs_states is not None and form != "none":
                    ops = list(make_eops(form).values()) if form == "dict" else make_eops(form)
                    for k, op in enumerate(ops):
                        for r in range(ntraj):
                            for i in range(T):
                                v = qutip.expect(op, res.runs_states[r][i])
                                if abs(v - res.runs_expect[k][r][i]) > 1e-8:
                                    P("expect-alignment", f"runs_expect[{k}][{r}][{i}] is not the expectation of runs_states[{r}][{i}]")
                                    break
            else:
                if res.trajectories:
                    P("keep-runs", "trajectories kept although keep_runs_results is off")
            if stored:
                av = res.average_states
                if av is None or len(av) != T:
                    P("states-stored", f"average_states {None if av is None else len(av)} entries, expected {T}")
                elif form != "none" and name != "nm_mcsolve":
                    ops = list(make_eops(form).values()) if form == "dict" else make_eops(form)
                    for k, op in enumerate(ops):
                        for i in range(T):
                            v = qutip.expect(op, av[i])
                            if abs(v - res.average_expect[k][i]) > 1e-8:
                                P("expect-alignment", f"average_expect[{k}][{i}] is not the expectation of average_states[{i}]")
                                break
            elif res.average_states is not None and len(res.average_states) != 0 and not keep:
                P("states-stored", "average_states available although states are not stored")
            if (sf or stored) and res.average_final_state is None:
                P("final-state", "average_final_state is None although requested")
            if (sf or stored) and stored and res.average_final_state is not None and res.average_states is not None \
                    and len(res.average_states) == T and (res.average_final_state - res.average_states[-1]).norm() > 1e-9:
                P("final-state", "average_final_state differs from the last averaged state")
            if name in ("mcsolve", "nm_mcsolve"):
                if len(res.col_times) != ntraj or len(res.col_which) != ntraj:
                    P("collapse-record", f"{len(res.col_times)} collapse-time lists for {ntraj} trajectories")
                else:
                    for ct, cw in zip(res.col_times, res.col_which):
                        if len(ct) != len(cw) or any(not (TL[0] <= t <= TL[-1]) for t in ct) or list(ct) != sorted(ct):
                            P("collapse-record", "collapse times / channels not aligned or out of range")
                            break
            if name in ("ssesolve", "smesolve"):
                if keep:
                    m = res.measurement
                    if m is None or len(m) != ntraj or any(np.shape(x)[-1] != T - 1 for x in m):
                        P("measurement-record", f"measurement record shape {[np.shape(x) for x in (m or [])]} for {T} times")
                    w = res.wiener_process
                    if w is None or len(w) != ntraj or any(np.shape(x)[-1] != T for x in w):
                        P("noise-record", f"wiener_process shape {[np.shape(x) for x in (w or [])]} for {T} times")
    compare_keep(by_keep, problems)
    # measurement and noise records are aligned with the time list also when the output times are unevenly spaced: entry k
    # belongs to the interval [t_k, t_k+1] - expectation of the measurement operator at its end (the default convention)
    # plus the increment of that interval per unit time
    tlu = np.array([0.0, 0.1, 0.3, 0.6, 0.65])
    for name, het in (("ssesolve", False), ("smesolve", False), ("smesolve", True)):
        try:
            with core.time_limit(120):
                ou = {"store_states": True, "store_measurement": True, "keep_runs_results": True, "dt": 0.05, "progress_bar": "", "map": "serial"}
                cl = qutip.SSESolver if name == "ssesolve" else qutip.SMESolver
                solver = cl(H, sc_ops=cops[:1], heterodyne=het, options=ou)
                st0 = psi0 if name == "ssesolve" else qutip.ket2dm(psi0)
                ru = solver.run(st0, tlu, ntraj=2, seeds=9)
        except core.CaseTimeout:
            raise
        except Exception as e:
            problems.append((f"raises:{name}", f"{name} with an uneven tlist: {type(e).__name__}: {e}"[:300]))
            continue
        rep.evaluations += 1
        rep.count("uneven-measurement-record")
        nm = len(solver.m_ops)
        for j in range(2):
            meas = np.asarray(ru.measurement[j]).reshape(nm, len(tlu) - 1)
            dw = np.asarray(ru.dW[j]).reshape(nm, len(tlu) - 1)
            wp = np.asarray(ru.wiener_process[j]).reshape(nm, len(tlu))
            if np.abs(np.diff(wp, axis=1) - dw).max() > 1e-10:
                problems.append((f"noise-record:{name}", f"{name} (heterodyne={het}), uneven tlist: wiener_process is not the running sum of dW"))
                break
            bad = False
            for i, (mo, fac) in enumerate(zip(solver.m_ops, solver.dW_factors)):
                ee = np.array([qutip.expect(mo, x) for x in ru.runs_states[j]])
                want = np.real(ee[1:]) + fac * dw[i] / np.diff(tlu)
                if np.abs(want - meas[i]).max() > 1e-8:
                    k = int(np.argmax(np.abs(want - meas[i])))
                    problems.append((f"measurement-record:{name}", f"{name} (heterodyne={het}), uneven tlist {tlu.tolist()}: measurement[{i}][{k}] = {meas[i][k]:.6g} but <M> + dW/dt on the interval [{tlu[k]}, {tlu[k + 1]}] is {want[k]:.6g}"))
                    bad = True
                    break
            if bad:
                break
    # the final state of a run that stores only the final state is the last state of the same run with
    # all states stored (same seeds), with and without improved sampling, with and without kept runs
    for name in ("mcsolve", "nm_mcsolve"):
        for improved, keep in itertools.product((False, True), (False, True)):
            def go(ss, sf, eops):
                o = {"store_states": ss, "store_final_state": sf, "keep_runs_results": keep, "progress_bar": "", "map": "serial", "improved_sampling": improved}
                if name == "mcsolve":
                    return qutip.mcsolve(H, psi0, TL, cops, e_ops=eops, ntraj=4, seeds=11, options=o)
                return qutip.nm_mcsolve(H, psi0, TL, ops_and_rates=[(qutip.sigmam(), lambda t: 0.4 - 0.6 * np.sin(3 * t))], e_ops=eops, ntraj=4, seeds=11, options=o)
            try:
                with core.time_limit(240):
                    full = go(True, True, [qutip.sigmaz()])
                    only_final = go(False, True, [qutip.sigmaz()])
                    nothing = go(None, True, [qutip.sigmaz()])
            except core.CaseTimeout:
                raise
            except Exception as e:
                problems.append((f"raises:{name}", f"{name} improved_sampling={improved} keep={keep}: {type(e).__name__}: {e}"[:300]))
                continue
            rep.evaluations += 1
            rep.count("final-vs-last=" + name)
            last = full.average_states[-1]
            for tag, r in (("store_states=False", only_final), ("store_states=None", nothing)):
                fs = r.average_final_state
                if fs is None:
                    problems.append((f"final-state:{name}", f"{name} improved_sampling={improved} keep_runs_results={keep} {tag}: average_final_state is None although requested"))
                elif (fs - last).norm() > 1e-9:
                    problems.append((f"final-state:{name}", f"{name} improved_sampling={improved} keep_runs_results={keep} {tag}: average_final_state differs from the last averaged state of the same run with states stored by {(fs - last).norm():.2e}"))
                ex = qutip.expect(qutip.sigmaz(), fs) if fs is not None else None
                if ex is not None and abs(ex - r.average_expect[0][-1]) > 1e-9:
                    problems.append((f"final-state:{name}", f"{name} improved_sampling={improved} keep_runs_results={keep} {tag}: <sz> of the final state {ex} is not the last average expectation value {r.average_expect[0][-1]}"))


def compare_keep(by_keep, problems):
    """the same seeded ensemble with and without keep_runs_results must report the same averages / final state"""
    for (name, form, ss, sf, keep), a in by_keep.items():
        if keep:
            continue
        b = by_keep.get((name, form, ss, sf, True))
        if b is None:
            continue
        tag = f"{name} e_ops={form} store_states={ss} store_final_state={sf}"
        for k, (x, y) in enumerate(zip(a.average_expect, b.average_expect)):
            if np.abs(np.asarray(x) - np.asarray(y)).max() > 1e-9:
                problems.append((f"keep-runs-changes-average:{name}", f"{tag}: average_expect[{k}] differs between keep_runs_results True/False"))
        fa, fb = a.average_final_state, b.average_final_state
        if (fa is None) != (fb is None):
            problems.append((f"keep-runs-changes-final:{name}", f"{tag}: average_final_state available only for one value of keep_runs_results"))
        elif fa is not None and (fa - fb).norm() > 1e-9:
            problems.append((f"keep-runs-changes-final:{name}", f"{tag}: average_final_state differs by {(fa - fb).norm():.2e} between keep_runs_results True/False"))
        sa, sb = a.average_states, b.average_states
        if sa is not None and sb is not None and len(sa) == len(sb) and len(sa) > 0:
            d = max((x - y).norm() for x, y in zip(sa, sb))
            if d > 1e-9:
                problems.append((f"keep-runs-changes-states:{name}", f"{tag}: average_states differ by {d:.2e} between keep_runs_results True/False"))


def run(tier, seed, replay):
    rep = core.Report(PID, tier, seed)
    rep.rule = ("finite option space: solvers (sesolve, mesolve(dm/ket), brmesolve, krylov, fsesolve, heom; mcsolve, nm_mcsolve, "
                "ssesolve, smesolve) x e_ops forms (none/single/list/dict/callback/QobjEvo/mixed) x store_states in "
                "{None,True,False} x store_final_state x ODE methods incl. buffer-reusing ones x store_ados / keep_runs_results; "
                "every configuration is non-trivial (distinct option set)")
    rep.assumptions = ["2-level systems, 4 output times; values are only compared relationally (same solver, everything stored)"]
    core.build_repo()
    import translate_result as tr
    flags = tr.extract(core.REPO)
    text, unknown = tr.render(flags)
    core.write_if_changed(os.path.join(core.LEAN, "Qv", "Gen", "ResultFlags.lean"), text)
    rep.notes["result_flags"] = flags
    proved = core.prove(rep, ["Qv.Model.C12", "Qv.Gen.ResultFlags", "Qv.Proofs.C12", "Qv.Props.C12"], "Qv.Props.C12",
                        extra_obligations=["Qv.Gen.ResultFlags.copy_rule_ok"])
    if unknown:
        rep.broken.append({"kind": "translator", "which": "result.py add_processor sites not recognised", "sites": unknown})
        proved = False
    if tier == "thorough":
        core.leanchecker(rep, ["Qv.Props.C12"])
    problems, structure = run_matrix(rep, tier)
    run_multitraj(rep, tier, problems)
    rep.exhaustive = (tier == "thorough")
    # correspondence of the structural model
    lines = ["C12.result " + json.dumps(c) for c, _ in structure]
    model = core.run_driver(lines)
    ndis, first = 0, None
    for (c, obs), m in zip(structure, model):
        if m != obs:
            ndis += 1
            if first is None:
                first = {"case": c, "model": m, "impl": obs}
    rep.notes["correspondence_disagreements"] = ndis
    if ndis:
        rep.broken.append({"kind": "correspondence", "which": "C12.result", "count": ndis, "first": first})
    seen = set()
    for sig, what in problems:
        if sig in seen:
            continue
        seen.add(sig)
        rep.violation(core.Violation("C12:" + sig, what, {"what": what}))
    if (ndis or not proved) and not rep.violations:
        rep.violation(core.Violation("C12:unverified", "model/proof no longer matches the code and no failing input was found",
                                     {"broken": rep.broken}, failing_input_found=False))
    return rep.finish()


if __name__ == "__main__":
    core.main(run, PID)
