"""C20 — named constructors satisfy their definitions.

Correspondence (exact / to rounding): entries of destroy / create / num (all N <= 14, offsets), jmat
(all spins j <= 5), basis / fock, the fixed gates and hadamard_transform against the closed forms of
the Lean model Qv.C20 (squared and scaled integer entries).
Oracle (independent, on the real objects): the defining algebra and normalisation of every named
operator, state and gate over sizes 1..10, offsets, spins, angles inside and outside [0, 2pi),
excitation-restricted operators against the restricted full-space operators, and the random generators
over seeds x densities x ranks x distributions x dims forms (class membership, dims labels,
reproducibility under the same seed whatever the state of NumPy's global generator).
"""
import itertools
import json
import math
import os
import sys
import warnings

import numpy as np

sys.path.insert(0, os.path.dirname(os.path.abspath(__file__)))
import core

PID = "C20"
TOL = 1e-11


def run(tier, seed, replay):
    rep = core.Report(PID, tier, seed)
    rep.rule = ("operators and states: every dimension 1..10 (14 for ladder entries), offsets 0..3, spins 0..5, 40 angles in [-4pi, 4pi]; "
                "random generators: seeds x N x density x rank x distribution x dims form; non-trivial = dimension >= 2")
    rep.assumptions = ["entries are compared to 1e-11 (squares of square roots to 1e-12 relative); unitarity of exponentials (displace, squeeze) to 1e-9",
                       "coherent / thermal 'operator' states in a truncated space are compared with their moments only where the truncation error is below 1e-6"]
    core.build_repo()
    proved = core.prove(rep, ["Qv.Model.C20", "Qv.Props.C20"], "Qv.Props.C20")
    if tier == "thorough":
        core.leanchecker(rep, ["Qv.Props.C20"])
    import qutip
    import scipy.linalg as sla
    from qutip.core import gates as G
    rng = np.random.default_rng(seed)
    viol = {}

    def v(sig, what, data=None):
        if sig not in viol:
            viol[sig] = (what, data or {"what": what})

    def chk(sig, cond, what, data=None):
        rep.evaluations += 1
        if not cond:
            v(sig, what, data)

    def guarded(sig, fn, dim1=False):
        if dim1:          # one signature per constructor for the one-dimensional space
            sig = sig.split("(")[0] + "(dimension 1)"
        try:
            with warnings.catch_warnings():
                warnings.simplefilter("ignore")
                with core.time_limit(120):
                    return fn()
        except core.CaseTimeout:
            raise
        except Exception as e:
            v(sig + ":raises", f"{sig}: {type(e).__name__}: {e}"[:240])
            return None

    dtypes = ["dense", "csr", "dia"]

    def MM(*qs):
        """matrix product on the entries (Qobj products of 1x1 objects collapse to scalars)"""
        out = qs[0].full()
        for q_ in qs[1:]:
            out = out @ q_.full()
        return out
    # ------------------------------------------------------------------ correspondence with the model
    lines, checks = [], []
    Nmax = 14 if tier == "thorough" else 9
    for N in range(1, Nmax + 1):
        for off in range(0, 4):
            lines.append("C20.ladder " + json.dumps({"N": N, "offset": off}))
            checks.append(("ladder", N, off))
    for J in range(0, 11 if tier == "thorough" else 8):
        lines.append("C20.spin " + json.dumps({"J": J}))
        checks.append(("spin", J))
    lines.append("C20.gates {}")
    checks.append(("gates",))
    for N in range(1, 5):
        lines.append("C20.hadamard " + json.dumps({"N": N}))
        checks.append(("hadamard", N))
    for N in range(1, 7):
        for off in range(0, 3):
            for n in range(off, N + off):
                lines.append("C20.basis " + json.dumps({"N": N, "n": n, "offset": off}))
                checks.append(("basis", N, n, off))
    # the enumeration of the excitation-number-restricted space (the model of `state_number_enumerate` proved for C19:
    # exactly the product states with at most `excitations` quanta, each once, in this order), bound 0 and bounds above
    # the capacity included
    for dims_e, exc_e in (([2, 2], 0), ([2, 2], 1), ([3, 2], 2), ([4], 0), ([4], 2), ([2, 3, 2], 3), ([3, 3], 9), ([1, 3], 1), ([3, 2, 2], 0), ([2, 2, 2, 2], 2)):
        lines.append("C19.labels " + json.dumps({"dims": dims_e, "depth": exc_e}))
        checks.append(("enr-enumeration", dims_e, exc_e))
    model = core.run_driver(lines)
    ndis, first = 0, None

    def dis(info):
        nonlocal ndis, first
        ndis += 1
        if first is None:
            first = info
    for ck, m in zip(checks, model):
        rep.count("model=" + ck[0])
        if isinstance(m, dict) and "error" in m:
            dis({"check": ck, "model": m})
            continue
        if ck[0] == "enr-enumeration":
            _, dims_e, exc_e = ck
            rep.evaluations += 1
            got_states = [[int(x) for x in st_] for st_ in qutip.state_number_enumerate(dims_e, exc_e)]
            nst, s2i, i2s = qutip.enr_state_dictionaries(dims_e, exc_e)
            if got_states != m["labels"] or [list(i2s[k]) for k in range(nst)] != m["labels"] or any(s2i[tuple(l)] != k for k, l in enumerate(m["labels"])):
                dis({"check": ck, "model": m["labels"], "impl": got_states})
            continue
        if ck[0] == "ladder":
            _, N, off = ck
            rep.case({"ladder": [N, off]}, N >= 2)
            for dt in dtypes:
                a = guarded(f"destroy({N},{off},{dt})", lambda: qutip.destroy(N, off, dtype=dt))
                ad = guarded(f"create({N},{off},{dt})", lambda: qutip.create(N, off, dtype=dt))
                nn = guarded(f"num({N},{off},{dt})", lambda: qutip.num(N, off, dtype=dt))
                if a is None or ad is None or nn is None:
                    continue
                A, AD = a.full(), ad.full()
                want = np.array(m["destroySq"], float)
                wantc = np.array(m["createSq"], float)
                ok = (np.abs(A.imag).max() == 0 and (A.real >= 0).all() and np.allclose(A.real ** 2, want, rtol=1e-12, atol=0)
                      and np.allclose(AD.real ** 2, wantc, rtol=1e-12, atol=0) and np.abs(AD.imag).max() == 0
                      and np.array_equal(nn.full(), np.diag(np.array(m["numDiag"], complex))))
                if not ok:
                    dis({"check": ck, "dtype": dt, "destroy": A.real.tolist(), "model_sq": m["destroySq"]})
                chk("ladder-dims", a.dims == [[N], [N]] and nn.dims == [[N], [N]], f"destroy({N}) dims {a.dims}")
        elif ck[0] == "spin":
            J = ck[1]
            j = J / 2
            rep.case({"spin": j}, J >= 1)
            jp = guarded(f"jmat({j},'+')", lambda: qutip.jmat(j, "+"))
            jz = guarded(f"jmat({j},'z')", lambda: qutip.jmat(j, "z"))
            if jp is None or jz is None:
                continue
            P = jp.full()
            ok = (np.abs(P.imag).max() == 0 and (P.real >= 0).all() and np.allclose(4 * P.real ** 2, np.array(m["jplusSq4"], float), rtol=1e-12, atol=1e-13)
                  and np.array_equal(2 * jz.full(), np.diag(np.array(m["jzTwice"], complex))))
            if not ok:
                dis({"check": ck, "jplus": P.real.tolist(), "model": m})
        elif ck[0] == "gates":
            for g in m:
                fn = getattr(G, g["name"], None)
                if fn is None:
                    dis({"gate": g["name"], "what": "constructor not found"})
                    continue
                U = guarded(g["name"], fn)
                if U is None:
                    continue
                want = np.array([[complex(a, b) for a, b in row] for row in g["m"]]) / math.sqrt(g["scaleSq"])
                if U.full().shape != want.shape or np.abs(U.full() - want).max() > 1e-15:
                    dis({"gate": g["name"], "impl": str(U.full().tolist()), "model": g["m"]})
                rep.case({"gate": g["name"]}, True)
        elif ck[0] == "hadamard":
            N = ck[1]
            U = guarded(f"hadamard_transform({N})", lambda: G.hadamard_transform(N))
            if U is not None and np.abs(U.full() * math.sqrt(2 ** N) - np.array(m, float)).max() > 1e-13:
                dis({"check": ck})
        elif ck[0] == "basis":
            _, N, n, off = ck
            b = guarded(f"basis({N},{n},{off})", lambda: qutip.basis(N, n, off))
            if b is not None and not np.array_equal(b.full().ravel(), np.array(m, complex)):
                dis({"check": ck, "impl": str(b.full().ravel().tolist()), "model": m})
    rep.notes["correspondence_disagreements"] = ndis
    rep.notes["correspondence_lines"] = len(lines)
    if ndis:
        rep.broken.append({"kind": "correspondence", "count": ndis, "first": first})

    # ------------------------------------------------------------------ oracle: operators
    def comm(a, b):
        return a @ b - b @ a
    for N in range(1, 11):
        rep.case({"oracle_N": N}, N >= 2)
        for off in (0, 1, 3):
            a = guarded(f"destroy({N},{off})", lambda: qutip.destroy(N, off))
            if a is None:
                continue
            A = a.full()
            d = np.ones(N)
            d[0] = 1 + off
            if N >= 1:
                d[-1] = (1 + off if N == 1 else 1) - (N + off) if N > 1 else 0.0
            if N == 1:
                d[:] = 0.0
            C = comm(A, A.conj().T)
            chk("ladder-commutator", np.abs(C - np.diag(d)).max() < TOL, f"[a, a+] for destroy({N}, offset={off}) is not the truncated identity: diag {np.diag(C).real.tolist()}")
            for n in range(off, N + off):
                k = qutip.basis(N, n, off)
                low = (a * k) if N > 1 else None
                if low is not None and n > off:
                    chk("ladder-action", abs((qutip.basis(N, n - 1, off).dag() * low) - math.sqrt(n)) < TOL, f"destroy({N},{off}) |{n}> does not have matrix element sqrt({n})")
            if off == 0:
                chk("num-is-adag-a", np.abs(MM(a.dag(), a) - qutip.num(N).full()).max() < TOL, f"a+a != num for N={N}")
        x, p_ = guarded(f"position({N})", lambda: qutip.position(N)), guarded(f"momentum({N})", lambda: qutip.momentum(N))
        a = qutip.destroy(N) if N >= 1 else None
        if x is not None and p_ is not None and a is not None:
            chk("position", np.abs(x.full() - (a.full() + a.dag().full()) / math.sqrt(2)).max() < TOL and x.isherm, f"position({N}) is not (a + a+)/sqrt2")
            chk("momentum", np.abs(p_.full() - (-1j) * (a.full() - a.dag().full()) / math.sqrt(2)).max() < TOL and p_.isherm, f"momentum({N}) is not -i(a - a+)/sqrt2")
        for al in (0.3, -0.2 + 0.4j, 1.1j):
            D = guarded(f"displace({N},{al})", lambda: qutip.displace(N, al), dim1=(N == 1))
            if D is not None:
                chk("displace-unitary", np.abs(MM(D, D.dag()) - np.eye(N)).max() < 1e-9, f"displace({N}, {al}) is not unitary")
                chk("displace-inverse", np.abs((D.dag() - qutip.displace(N, -al)).full()).max() < 1e-9, f"displace({N}, {al})+ != displace({N}, {-al})")
            # with an offset the displacement is the exponential of alpha a+ - alpha* a built from the ladder operators of
            # the shifted number states, and so unitary with D(-alpha) its inverse
            for off in (1, 3):
                Do = guarded(f"displace({N},{al},offset={off})", lambda: qutip.displace(N, al, offset=off), dim1=(N == 1))
                if Do is not None and N >= 2:
                    ao = qutip.destroy(N, offset=off)
                    import scipy.linalg as _sl
                    want = _sl.expm(al * ao.dag().full() - np.conj(al) * ao.full())
                    chk("displace-offset", np.abs(Do.full() - want).max() < 1e-9, f"displace({N}, {al}, offset={off}) is not exp(alpha a+ - alpha* a) of the ladder operators with that offset")
                    chk("displace-offset-unitary", np.abs(MM(Do, Do.dag()) - np.eye(N)).max() < 1e-9, f"displace({N}, {al}, offset={off}) is not unitary")
                    chk("displace-offset-inverse", np.abs((Do.dag() - qutip.displace(N, -al, offset=off)).full()).max() < 1e-9, f"displace({N}, {al}, offset={off})+ != displace({N}, {-al}, offset={off})")
            S = guarded(f"squeeze({N},{al})", lambda: qutip.squeeze(N, al), dim1=(N == 1))
            if S is not None:
                chk("squeeze-unitary", np.abs(MM(S, S.dag()) - np.eye(N)).max() < 1e-9, f"squeeze({N}, {al}) is not unitary")
                chk("squeeze-inverse", np.abs((S.dag() - qutip.squeeze(N, -al)).full()).max() < 1e-9, f"squeeze({N}, {al})+ != squeeze({N}, {-al})")
        F = guarded(f"qft({N})", lambda: qutip.qft(N))
        if F is not None:
            w = np.exp(2j * np.pi / N)
            want = np.array([[w ** (j * k) for k in range(N)] for j in range(N)]) / math.sqrt(N)
            chk("qft", np.abs(F.full() - want).max() < 1e-10, f"qft({N}) is not the Fourier matrix")
            chk("qft-unitary", np.abs(MM(F, F.dag()) - np.eye(N)).max() < 1e-10, f"qft({N}) is not unitary")
        for m_ in range(1, min(N, 3) + 1):
            Tn = guarded(f"tunneling({N},{m_})", lambda: qutip.tunneling(N, m_))
            if Tn is not None:
                want = np.diag(np.ones(N - m_), m_) + np.diag(np.ones(N - m_), -m_) if N > m_ else np.zeros((N, N))
                chk("tunneling", Tn.shape == (N, N) and np.abs(Tn.full() - want).max() < TOL, f"tunneling({N},{m_}) wrong")
        for n in range(N):
            for m_ in range(N):
                Pm = guarded(f"projection({N},{n},{m_})", lambda: qutip.projection(N, n, m_), dim1=(N == 1))
                want = np.zeros((N, N))
                want[n, m_] = 1
                if Pm is not None:
                    chk("projection", np.array_equal(Pm.full(), want), f"projection({N},{n},{m_}) wrong")
    for Nmax_, Nmin_, frac in ((2, None, 1), (3, -1, 1), (2, 0, 2), (0, None, 1)):
        ch = guarded(f"charge({Nmax_},{Nmin_},{frac})", lambda: qutip.charge(Nmax_, Nmin_, frac))
        lo = -Nmax_ if Nmin_ is None else Nmin_
        if ch is not None:
            chk("charge", np.allclose(ch.diag(), frac * np.arange(lo, Nmax_ + 1)), f"charge({Nmax_},{Nmin_},{frac}) diagonal {ch.diag().tolist()}")
    # spins
    for J in range(0, 11):
        j = J / 2
        ops = guarded(f"jmat({j})", lambda: qutip.jmat(j))
        if ops is None:
            continue
        jx, jy, jz = [o.full() for o in ops]
        n = J + 1
        rep.case({"oracle_spin": j}, J >= 1)
        chk("spin-algebra", np.abs(comm(jx, jy) - 1j * jz).max() < TOL and np.abs(comm(jy, jz) - 1j * jx).max() < TOL and np.abs(comm(jz, jx) - 1j * jy).max() < TOL,
            f"jmat({j}) does not satisfy [Jx, Jy] = i Jz (cyclic)")
        chk("spin-casimir", np.abs(jx @ jx + jy @ jy + jz @ jz - j * (j + 1) * np.eye(n)).max() < TOL, f"jmat({j}): J^2 != j(j+1)")
        jp, jm = guarded(f"jmat({j},+)", lambda: qutip.jmat(j, "+")), guarded(f"jmat({j},-)", lambda: qutip.jmat(j, "-"))
        if jp is not None and jm is not None:
            chk("spin-ladder", np.abs(jp.full() - (jx + 1j * jy)).max() < TOL and np.abs(jm.full() - (jx - 1j * jy)).max() < TOL, f"jmat({j},'+') != Jx + iJy")
        chk("spin-herm", all(o.isherm for o in ops) and all(o.dims == [[n], [n]] for o in ops), f"jmat({j}) flags / dims")
        for th, ph in ((0.3, 0.2), (1.2, -2.0), (np.pi, 0.5), (0.0, 0.0)):
            sc = guarded(f"spin_coherent({j},{th},{ph})", lambda: qutip.spin_coherent(j, th, ph), dim1=(J == 0))
            if sc is not None and hasattr(sc, "norm") and J >= 1:
                chk("spin-coherent", abs(sc.norm() - 1) < 1e-10 and abs(qutip.expect(ops[2], sc) - j * np.cos(th)) < 1e-9, f"spin_coherent({j},{th},{ph}): norm {sc.norm()}, <Jz> {qutip.expect(ops[2], sc)} != {j * np.cos(th)}")
        for mi in range(J + 1):
            m_ = j - mi
            ss = guarded(f"spin_state({j},{m_})", lambda: qutip.spin_state(j, m_))
            if ss is not None and J >= 1:
                chk("spin-state", np.abs((ops[2] * ss - m_ * ss).full()).max() < TOL and abs(ss.norm() - 1) < TOL, f"spin_state({j},{m_}) is not the Jz eigenstate")
    chk("pauli", np.abs((2 * qutip.jmat(0.5, "x") - qutip.sigmax()).full()).max() < TOL and np.abs((2 * qutip.jmat(0.5, "y") - qutip.sigmay()).full()).max() < TOL
        and np.abs((2 * qutip.jmat(0.5, "z") - qutip.sigmaz()).full()).max() < TOL and np.abs((qutip.sigmap() - qutip.jmat(0.5, "+")).full()).max() < TOL, "Pauli matrices are not 2 jmat(1/2)")
    # ------------------------------------------------------------------ states
    for N in range(1, 11):
        for al in (0.2, 0.3 - 0.4j):
            ca = guarded(f"coherent({N},{al},analytic)", lambda: qutip.coherent(N, al, method="analytic"))
            if ca is not None:
                want = np.array([np.exp(-abs(al) ** 2 / 2) * al ** n / math.sqrt(math.factorial(n)) for n in range(N)])
                chk("coherent-analytic", np.abs(ca.full().ravel() - want).max() < 1e-12, f"coherent({N},{al},'analytic') entries are not the closed form")
            # with an offset: the closed-form entries n = offset .. offset + N - 1, also a window of a larger space
            for al2 in (al, -0.7, 1.1j, -0.3 - 0.2j):
                for off in (1, 2, 3, 5, 20, 21, 23, 40):
                    for meth in ({}, {"method": "analytic"}):
                        cao = guarded(f"coherent({N},{al2},offset={off})", lambda: qutip.coherent(N, al2, offset=off, **meth), dim1=(N == 1))
                        if cao is None:
                            continue
                        want = np.array([np.exp(-abs(al2) ** 2 / 2) * al2 ** n / math.sqrt(math.factorial(n)) for n in range(off, off + N)])
                        chk("coherent-analytic-offset", np.all(np.isfinite(cao.full())) and np.all(np.abs(cao.full().ravel() - want) <= 1e-10 * np.abs(want) + 1e-300),
                            f"coherent({N},{al2},offset={off},{meth}) entries are not the closed form e^(-|a|^2/2) a^n / sqrt(n!), n = {off}..{off + N - 1}")
                        big = qutip.coherent(N + off, al2, method="analytic").full().ravel()[off:]
                        chk("coherent-offset-window", np.abs(cao.full().ravel() - big).max() < 1e-12, f"coherent({N},{al2},offset={off}) is not the window of coherent({N + off},{al2})")
                        if N >= 2:
                            cdo = guarded(f"coherent_dm({N},{al2},offset={off})", lambda: qutip.coherent_dm(N, al2, offset=off, **meth))
                            if cdo is not None:
                                chk("coherent-dm-offset", np.abs(cdo.full() - np.outer(want, want.conj())).max() < 1e-12, f"coherent_dm({N},{al2},offset={off}) != |alpha><alpha| of the closed form")
            co = guarded(f"coherent({N},{al},operator)", lambda: qutip.coherent(N, al, method="operator"), dim1=(N == 1))
            if N >= 2:
                if co is not None:
                    chk("coherent-norm", abs(co.norm() - 1) < 1e-10, f"coherent({N},{al}) not normalised")
                    if N >= 8:
                        chk("coherent-moment", abs(qutip.expect(qutip.destroy(N), co) - al) < 1e-5, f"coherent({N},{al}): <a> = {qutip.expect(qutip.destroy(N), co)}")
                cd = guarded(f"coherent_dm({N},{al})", lambda: qutip.coherent_dm(N, al))
                if cd is not None and co is not None:
                    chk("coherent-dm", np.abs((cd - qutip.ket2dm(co)).full()).max() < 1e-12, f"coherent_dm({N},{al}) != |alpha><alpha|")
        for nth in (0.0, 0.3, 2.0):
            ta = guarded(f"thermal_dm({N},{nth},analytic)", lambda: qutip.thermal_dm(N, nth, method="analytic"))
            if ta is not None:
                want = np.array([(1 / (1 + nth)) * (nth / (1 + nth)) ** k for k in range(N)])
                chk("thermal-analytic", np.abs(ta.diag() - want).max() < 1e-12 and np.abs(ta.full() - np.diag(ta.diag())).max() == 0, f"thermal_dm({N},{nth},'analytic') diagonal is not the closed form")
            to = guarded(f"thermal_dm({N},{nth},operator)", lambda: qutip.thermal_dm(N, nth, method="operator"))
            if to is not None:
                chk("thermal-trace", abs(to.tr() - 1) < 1e-12 and to.isherm, f"thermal_dm({N},{nth}) trace {to.tr()}")
                if nth > 0 and N > 1:
                    dg = to.diag()
                    chk("thermal-ratio", np.allclose(dg[1:] / dg[:-1], nth / (1 + nth), rtol=1e-10), f"thermal_dm({N},{nth}) populations are not geometric")
        mm = qutip.maximally_mixed_dm(N)
        chk("maximally-mixed", np.abs(mm.full() - np.eye(N) / N).max() < 1e-15, f"maximally_mixed_dm({N}) wrong")
        for off in (0, 2):
            for n in range(off, N + off):
                chk("fock-dm", np.array_equal(qutip.fock_dm(N, n, off).full(), qutip.ket2dm(qutip.basis(N, n, off)).full()), f"fock_dm({N},{n},{off})")
        pb = [guarded(f"phase_basis({N},{m_})", lambda: qutip.phase_basis(N, m_)) for m_ in range(N)]
        if all(x is not None for x in pb) and N >= 2:
            gram = np.array([[complex(x.dag() * y) if not isinstance(x.dag() * y, complex) else x.dag() * y for y in pb] for x in pb])
            chk("phase-basis", np.abs(gram - np.eye(N)).max() < 1e-10, f"phase_basis({N}, .) is not orthonormal")
    bells = [qutip.bell_state(s) for s in ("00", "01", "10", "11")]
    gram = np.array([[(x.dag() * y) for y in bells] for x in bells])
    chk("bell-orthonormal", np.abs(gram - np.eye(4)).max() < 1e-12, "Bell states are not orthonormal")
    for b in bells:
        chk("bell-entangled", np.abs(b.ptrace(0).full() - np.eye(2) / 2).max() < 1e-12 and b.dims == [[2, 2], [1, 1]] or b.dims == [[2, 2], [1]], "Bell state is not maximally entangled / dims")
    chk("singlet", np.abs((qutip.singlet_state() - (qutip.tensor(qutip.basis(2, 0), qutip.basis(2, 1)) - qutip.tensor(qutip.basis(2, 1), qutip.basis(2, 0))).unit()).full()).max() < 1e-12 or
        np.abs((qutip.singlet_state() + (qutip.tensor(qutip.basis(2, 0), qutip.basis(2, 1)) - qutip.tensor(qutip.basis(2, 1), qutip.basis(2, 0))).unit()).full()).max() < 1e-12, "singlet_state wrong")
    trip = qutip.triplet_states()
    chk("triplet", len(trip) == 3 and all(abs(t.norm() - 1) < 1e-12 for t in trip) and all(abs(qutip.singlet_state().dag() * t) < 1e-12 for t in trip), "triplet_states wrong")
    for n in range(1, 7):
        g = guarded(f"ghz_state({n})", lambda: qutip.ghz_state(n))
        w = guarded(f"w_state({n})", lambda: qutip.w_state(n))
        if g is not None:
            want = np.zeros(2 ** n)
            want[0] = want[-1] = 1 / math.sqrt(2)
            chk("ghz", np.abs(g.full().ravel() - want).max() < 1e-12 and g.dims[0] == [2] * n, f"ghz_state({n}) wrong")
        if w is not None:
            want = np.zeros(2 ** n)
            for k in range(n):
                want[2 ** k] = 1 / math.sqrt(n)
            chk("w-state", np.abs(w.full().ravel() - want).max() < 1e-12 and w.dims[0] == [2] * n, f"w_state({n}) wrong")
    # ------------------------------------------------------------------ excitation-number restricted
    for dims, exc in (([2, 2], 1), ([3, 2], 2), ([2, 2, 2], 2), ([3, 3], 1), ([4], 2), ([2, 3, 2], 3), ([1, 2], 1),
                      # the bound 0 (vacuum only) and bounds at and above the capacity of the modes
                      ([2, 2], 0), ([4], 0), ([3, 2, 2], 0), ([2, 3], 3), ([2, 3], 10), ([3], 2), ([3], 5)):
        res = guarded(f"enr_destroy({dims},{exc})", lambda: (qutip.enr_destroy(dims, exc), qutip.enr_state_dictionaries(dims, exc), qutip.enr_identity(dims, exc)))
        if res is None:
            continue
        ops, (nstates, s2i, i2s), ident = res
        full_states = list(itertools.product(*[range(d) for d in dims]))
        allowed = [i2s[k] for k in range(nstates)]
        chk("enr-states", sorted(allowed) == sorted(s for s in full_states if sum(s) <= exc) and all(s2i[s] == k for k, s in enumerate(allowed)), f"enr_state_dictionaries({dims},{exc}) does not list the states with at most {exc} excitations")
        P = np.zeros((nstates, len(full_states)))
        for k, s in enumerate(allowed):
            P[k, full_states.index(tuple(s))] = 1
        for i, op in enumerate(ops):
            fullop = qutip.tensor([qutip.destroy(d) if k == i else qutip.qeye(d) for k, d in enumerate(dims)]).full()
            chk("enr-destroy", np.abs(op.full() - P @ fullop @ P.T).max() < TOL, f"enr_destroy({dims},{exc})[{i}] is not the restricted full-space operator")
        chk("enr-identity", np.array_equal(ident.full(), np.eye(nstates)), f"enr_identity({dims},{exc})")
        for s in allowed:
            f = qutip.enr_fock(dims, exc, list(s))
            chk("enr-fock", f.full().ravel()[s2i[tuple(s)]] == 1 and abs(f.norm() - 1) < 1e-15, f"enr_fock({dims},{exc},{s})")
    # thermal states of the restricted space: the full-space product of thermal states cut down and renormalised,
    # also for modes with mean occupation exactly 0
    for dims, exc, nbar in (([3, 3], 2, 0.4), ([3, 3], 2, [0.0, 0.4]), ([2, 3], 2, 0.0), ([3, 2, 2], 2, [0.3, 0.0, 1.2]), ([4], 2, 0.0), ([3, 3], 4, [0.7, 0.2])):
        res = guarded(f"enr_thermal_dm({dims},{exc},{nbar})", lambda: (qutip.enr_thermal_dm(dims, exc, nbar), qutip.enr_state_dictionaries(dims, exc)))
        if res is None:
            continue
        rho_e, (nstates, s2i, i2s) = res
        nb = list(nbar) if isinstance(nbar, (list, tuple)) else [nbar] * len(dims)
        fulld = np.real(np.diag(qutip.tensor([qutip.thermal_dm(d_, n_) for d_, n_ in zip(dims, nb)]).full()))
        full_states = list(itertools.product(*[range(d_) for d_ in dims]))
        want = np.array([fulld[full_states.index(tuple(i2s[k]))] for k in range(nstates)])
        want = want / want.sum()
        got = rho_e.full()
        chk("enr-thermal", np.all(np.isfinite(got)) and np.abs(got - np.diag(want)).max() < 1e-12 and abs(np.trace(got) - 1) < 1e-12,
            f"enr_thermal_dm({dims}, {exc}, {nbar}) is not the renormalised restriction of the product of thermal states (diagonal {np.real(np.diag(got)).tolist()} against {want.tolist()})", {"dims": dims, "exc": exc, "nbar": str(nbar)})
    # ------------------------------------------------------------------ every call of a constructor hands out its own object: what the caller does
    # to one result (in-place normalisation, tidy-up, new labels) does not reach the results of later calls
    fresh_table = {
        "bell_state('00')": lambda: qutip.bell_state("00"), "bell_state('11')": lambda: qutip.bell_state("11"), "singlet_state": qutip.singlet_state,
        "triplet_states[0]": lambda: qutip.triplet_states()[0], "w_state(3)": lambda: qutip.w_state(3), "ghz_state(3)": lambda: qutip.ghz_state(3),
        "basis(3,1)": lambda: qutip.basis(3, 1), "fock_dm(3,1)": lambda: qutip.fock_dm(3, 1), "coherent(4,0.5)": lambda: qutip.coherent(4, 0.5),
        "thermal_dm(3,0.4)": lambda: qutip.thermal_dm(3, 0.4), "maximally_mixed_dm(3)": lambda: qutip.maximally_mixed_dm(3), "zero_ket(3)": lambda: qutip.zero_ket(3),
        "sigmax": qutip.sigmax, "sigmay": qutip.sigmay, "sigmaz": qutip.sigmaz, "sigmap": qutip.sigmap, "sigmam": qutip.sigmam, "qeye(3)": lambda: qutip.qeye(3),
        "destroy(3)": lambda: qutip.destroy(3), "num(3)": lambda: qutip.num(3), "jmat(1,'x')": lambda: qutip.jmat(1, "x"), "qutrit_ops[0]": lambda: qutip.qutrit_ops()[0],
        "qutrit_basis[1]": lambda: qutip.qutrit_basis()[1], "spin_state(1,0)": lambda: qutip.spin_state(1, 0),
        "hadamard": lambda: G.hadamard_transform(1), "cnot": G.cnot, "swap": G.swap, "iswap": G.iswap, "toffoli": G.toffoli, "fredkin": G.fredkin, "snot": G.snot,
        "s_gate": G.s_gate, "t_gate": G.t_gate, "cs_gate": G.cs_gate, "ct_gate": G.ct_gate, "berkeley": G.berkeley, "sqrtnot": G.sqrtnot, "sqrtswap": G.sqrtswap,
        "sqrtiswap": G.sqrtiswap, "csign": G.csign, "cy_gate": G.cy_gate, "cz_gate": G.cz_gate, "clifford[5]": lambda: G.qubit_clifford_group()[5],
    }
    for nm_, mk_ in fresh_table.items():
        first = guarded(nm_, mk_)
        if first is None:
            continue
        snap_m, snap_d = first.full().copy(), [list(x) if isinstance(x, list) else x for x in first.dims]
        try:
            with warnings.catch_warnings():
                warnings.simplefilter("ignore")
                first.unit(inplace=True, norm="max") if np.abs(snap_m).max() > 0 else None
                first.tidyup(atol=10.0)
                first.dims = [[int(first.shape[0])], [int(first.shape[1])]]
        except Exception:
            pass
        second = guarded(nm_, mk_)
        if second is None:
            continue
        chk("constructor-hands-out-shared-object", second is not first and np.array_equal(second.full(), snap_m) and second.dims == snap_d,
            f"{nm_}: after the first result was normalised / tidied up / relabelled in place by its caller, a second call returns dims {second.dims} and entries of largest size {np.abs(second.full()).max():.3g} (first call: dims {snap_d}, {np.abs(snap_m).max():.3g})", {"constructor": nm_})
    # ------------------------------------------------------------------ gates
    X, Y, Z = qutip.sigmax().full(), qutip.sigmay().full(), qutip.sigmaz().full()
    angles = np.concatenate([np.linspace(-4 * np.pi, 4 * np.pi, 33), rng.uniform(-13, 13, 8), [2 * np.pi, -2 * np.pi, 4 * np.pi, 3 * np.pi, 1e-9]])
    for a in angles:
        a = float(a)
        for name, gen in (("rx", X), ("ry", Y), ("rz", Z)):
            U = guarded(f"{name}({a})", lambda: getattr(G, name)(a))
            if U is None:
                continue
            chk(f"{name}-exp", np.abs(U.full() - sla.expm(-0.5j * a * gen)).max() < 1e-12, f"{name}({a}) != exp(-i {a}/2 sigma)", {"gate": name, "angle": a})
            chk(f"{name}-flags", (U.isherm == bool(np.abs(U.full() - U.full().conj().T).max() < 1e-12)) or abs(math.remainder(a, 2 * np.pi)) < 1e-6, f"{name}({a}) isherm flag {U.isherm}", {"gate": name, "angle": a})
            b = float(rng.uniform(-7, 7))
            V = getattr(G, name)(b)
            W = getattr(G, name)(a + b)
            chk(f"{name}-group", np.abs((U * V).full() - W.full()).max() < 1e-12, f"{name}({a}) {name}({b}) != {name}({a + b})", {"gate": name, "a": a, "b": b})
        for ph in (0.0, 0.7, -2.1):
            U = guarded(f"qrot({a},{ph})", lambda: G.qrot(a, ph))
            if U is not None:
                chk("qrot-exp", np.abs(U.full() - sla.expm(-0.5j * a * (np.cos(ph) * X + np.sin(ph) * Y))).max() < 1e-12, f"qrot({a},{ph}) != exp(-i theta/2 (cos phi X + sin phi Y))", {"theta": a, "phi": ph})
        U = guarded(f"phasegate({a})", lambda: G.phasegate(a))
        if U is not None:
            chk("phasegate", np.abs(U.full() - np.diag([1, np.exp(1j * a)])).max() < 1e-14, f"phasegate({a})")
        U = guarded(f"cphase({a})", lambda: G.cphase(a))
        if U is not None:
            chk("cphase", np.abs(U.full() - np.diag([1, 1, 1, np.exp(1j * a)])).max() < 1e-14, f"cphase({a})")
        U = guarded(f"molmer_sorensen({a})", lambda: G.molmer_sorensen(a))
        if U is not None:
            chk("molmer-sorensen", np.abs(U.full() - sla.expm(-0.5j * a * np.kron(X, X))).max() < 1e-12, f"molmer_sorensen({a}) != exp(-i theta/2 XX)", {"angle": a})
        U = guarded(f"swapalpha({a})", lambda: G.swapalpha(a))
        if U is not None:
            b = float(rng.uniform(-3, 3))
            chk("swapalpha-group", np.abs((U * G.swapalpha(b)).full() - G.swapalpha(a + b).full()).max() < 1e-12, f"swapalpha({a}) swapalpha({b}) != swapalpha({a + b})", {"a": a, "b": b})
        U = guarded(f"globalphase({a})", lambda: G.globalphase(a, 2))
        if U is not None:
            chk("globalphase", np.abs(U.full() - np.exp(1j * a) * np.eye(4)).max() < 1e-14, f"globalphase({a}, 2)")
    chk("swapalpha-one", np.abs(G.swapalpha(1).full() - G.swap().full()).max() < 1e-12, "swapalpha(1) != swap")
    chk("sqrt-gates", np.abs((G.sqrtswap() * G.sqrtswap() - G.swap()).full()).max() < 1e-12 and np.abs((G.sqrtiswap() * G.sqrtiswap() - G.iswap()).full()).max() < 1e-12
        and np.abs((G.sqrtnot() * G.sqrtnot()).full() - X).max() < 1e-12 and np.abs((G.t_gate() * G.t_gate() - G.s_gate()).full()).max() < 1e-12
        and np.abs((G.s_gate() * G.s_gate()).full() - Z).max() < 1e-12, "a square-root gate does not square to its gate")
    every = ["cy_gate", "cz_gate", "s_gate", "cs_gate", "t_gate", "ct_gate", "sqrtnot", "snot", "cnot", "csign", "berkeley", "swap", "iswap", "sqrtswap", "sqrtiswap", "fredkin", "toffoli"]
    for name in every:
        for dt in dtypes:
            U = guarded(f"{name}[{dt}]", lambda: getattr(G, name)(dtype=dt))
            if U is None:
                continue
            M = U.full()
            n = M.shape[0]
            chk("gate-unitary", np.abs(M @ M.conj().T - np.eye(n)).max() < 1e-12 and U.isunitary, f"{name} is not unitary")
            chk("gate-flags", U.isherm == bool(np.abs(M - M.conj().T).max() < 1e-12), f"{name}: isherm flag {U.isherm} contradicts the matrix")
            nq = int(round(math.log2(n)))
            chk("gate-dims", U.dims == [[2] * nq, [2] * nq], f"{name} dims {U.dims}")
    for N in range(1, 5):
        H1 = G.snot()
        chk("hadamard-tensor", np.abs(G.hadamard_transform(N).full() - qutip.tensor([H1] * N).full()).max() < 1e-12, f"hadamard_transform({N}) != snot^(x){N}")
    cl = guarded("qubit_clifford_group", lambda: list(G.qubit_clifford_group()))
    if cl is not None:
        def canon(M):
            M = np.asarray(M)
            k = np.flatnonzero(np.abs(M.ravel()) > 1e-9)[0]
            return np.round(M / (M.ravel()[k] / abs(M.ravel()[k])), 8) + 0.0
        keys = {canon(c.full()).tobytes() for c in cl}
        closed = all(canon((a_ * b_).full()).tobytes() in keys for a_ in cl for b_ in cl)
        chk("clifford", len(cl) == 24 and len(keys) == 24 and closed and all(np.abs((c * c.dag()).full() - np.eye(2)).max() < 1e-12 for c in cl), "qubit_clifford_group is not the 24-element group")
    # ------------------------------------------------------------------ random objects
    nrand = 40 if tier == "quick" else 300

    def same(a_, b_):
        if isinstance(a_, (list, tuple)):
            return len(a_) == len(b_) and all(same(x, y) for x, y in zip(a_, b_))
        return a_.dims == b_.dims and np.array_equal(a_.full(), b_.full())

    def twice(sig, mk, sd, data):
        """the same seed gives the same object, whatever the state of NumPy's global generator"""
        outs = []
        for k, form in enumerate(("int", "seq", "gen")):
            for g in (1, 2):
                np.random.seed(1000 * k + g + int(rng.integers(0, 10 ** 6)))
                s = sd if form == "int" else (np.random.SeedSequence(sd) if form == "seq" else np.random.default_rng(sd))
                outs.append(guarded(sig, lambda: mk(s)))
        if any(o is None for o in outs):
            return None
        chk(sig + "-seed", all(same(outs[0], o) for o in outs[1:2]) and all(same(outs[2], o) for o in outs[3:4]) and all(same(outs[4], o) for o in outs[5:6]),
            f"{sig}: the same seed gives different objects", data)
        return outs[0]
    dims_forms = [2, 3, 5, [2, 2], [3, 2], 1, 10]
    for it in range(nrand):
        dform = dims_forms[int(rng.integers(0, len(dims_forms)))]
        N = int(np.prod(dform))
        want_dims = [[dform], [dform]] if isinstance(dform, int) else [list(dform), list(dform)]
        density = float(rng.choice([0.0, 0.04, 0.3, 0.75, 1.0]))
        sd = int(rng.integers(0, 10 ** 6))
        rep.count("random-dims=" + str(dform))
        rep.case({"random": [str(dform), density]}, N >= 2)
        data = {"dims": dform, "density": density, "seed": sd}
        for dist in ("fill", "eigen", "pos_def"):
            # spectra with equal eigenvalues too (a multiple of the identity cannot be filled by rotations at all)
            spec_h = [np.linspace(-1, 2, N), np.full(N, 0.5), np.array([0.5] * (N // 2) + [2.0] * (N - N // 2))][int(rng.integers(0, 3))]
            kw = {"eigenvalues": spec_h} if dist == "eigen" else {}
            H = twice(f"rand_herm[{dist}]", lambda s: qutip.rand_herm(dform, density=density, distribution=dist, seed=s, **kw), sd, dict(data, distribution=dist))
            if H is not None:
                chk("rand_herm", np.abs(H.full() - H.full().conj().T).max() < 1e-12 and H.isherm and H.dims == want_dims, f"rand_herm({dform}, {density}, {dist}) is not Hermitian with dims {want_dims}: dims {H.dims}", dict(data, distribution=dist))
                if dist == "eigen":
                    chk("rand_herm-eigenvalues", np.abs(np.sort(np.linalg.eigvalsh(H.full())) - np.sort(spec_h)).max() < 1e-9,
                        f"rand_herm({dform}, eigen) does not have the requested eigenvalues {np.sort(spec_h).tolist()}", dict(data, distribution=dist))
                if dist == "pos_def":
                    chk("rand_herm-posdef", np.linalg.eigvalsh(H.full()).min() > -1e-10, f"rand_herm pos_def has a negative eigenvalue", dict(data, distribution=dist))
        for dist in ("haar", "exp"):
            U = twice(f"rand_unitary[{dist}]", lambda s: qutip.rand_unitary(dform, density=density, distribution=dist, seed=s), sd, dict(data, distribution=dist))
            if U is not None:
                chk("rand_unitary", np.abs(MM(U, U.dag()) - np.eye(N)).max() < 1e-9 and U.dims == want_dims, f"rand_unitary({dform}, {dist}) is not unitary / dims {U.dims}", dict(data, distribution=dist))
        for dist in ("haar", "fill"):
            k = twice(f"rand_ket[{dist}]", lambda s: qutip.rand_ket(dform, density=density, distribution=dist, seed=s), sd, dict(data, distribution=dist))
            if k is not None:
                chk("rand_ket", abs(k.norm() - 1) < 1e-10 and k.dims[0] == want_dims[0] and k.isket, f"rand_ket({dform}, {density}, {dist}): norm {k.norm()}, dims {k.dims}", dict(data, distribution=dist))
        for dist in ("ginibre", "hs", "pure", "eigen", "herm"):
            rank = int(rng.integers(1, N + 1))
            spec_d = [np.arange(1, N + 1) / (N * (N + 1) / 2), np.full(N, 1.0 / N), np.array([1.0] + [0.0] * (N - 1))][int(rng.integers(0, 3))]
            kw = {"rank": rank} if dist == "ginibre" else ({"eigenvalues": spec_d} if dist == "eigen" else {})
            r = twice(f"rand_dm[{dist}]", lambda s: qutip.rand_dm(dform, density=max(density, 0.04), distribution=dist, seed=s, **kw), sd, dict(data, distribution=dist, rank=rank))
            if r is not None:
                ev = np.linalg.eigvalsh((r.full() + r.full().conj().T) / 2)
                chk("rand_dm", abs(r.tr() - 1) < 1e-10 and ev.min() > -1e-10 and np.abs(r.full() - r.full().conj().T).max() < 1e-12 and r.dims == want_dims,
                    f"rand_dm({dform}, {dist}) is not a density matrix with dims {want_dims}: trace {r.tr()}, min eigenvalue {ev.min()}, dims {r.dims}", dict(data, distribution=dist))
                if dist == "eigen":
                    chk("rand_dm-eigenvalues", np.abs(np.sort(ev) - np.sort(spec_d)).max() < 1e-9, f"rand_dm({dform}, eigen) does not have the requested eigenvalues {np.sort(spec_d).tolist()}", dict(data, distribution=dist))
                if dist == "ginibre":
                    chk("rand_dm-rank", int((ev > 1e-10).sum()) == rank, f"rand_dm({dform}, ginibre, rank={rank}) has rank {(ev > 1e-10).sum()}", dict(data, rank=rank))
                if dist == "pure":
                    chk("rand_dm-pure", int((ev > 1e-10).sum()) == 1, f"rand_dm({dform}, pure) has rank {(ev > 1e-10).sum()}", data)
        for kind in ("left", "right"):
            S = twice(f"rand_stochastic[{kind}]", lambda s: qutip.rand_stochastic(dform, density=max(density, 0.3), kind=kind, seed=s), sd, dict(data, kind=kind))
            if S is not None:
                M = S.full()
                sums = M.sum(axis=0) if kind == "left" else M.sum(axis=1)
                chk("rand_stochastic", np.abs(M.imag).max() == 0 and (M.real >= 0).all() and np.abs(sums - 1).max() < 1e-12 and S.dims == want_dims, f"rand_stochastic({dform}, {kind}) is not stochastic", dict(data, kind=kind))
        if 2 <= N <= 6:
            Ks = twice("rand_kraus_map", lambda s: qutip.rand_kraus_map(dform, seed=s), sd, data)
            if Ks is not None:
                tot = sum(MM(K.dag(), K) for K in Ks)
                chk("rand_kraus_map", np.abs(tot - np.eye(N)).max() < 1e-10 and all(K.dims == want_dims for K in Ks), f"rand_kraus_map({dform}) is not complete", data)
            for mk_name in ("rand_super", "rand_super_bcsz"):
                kw = {}
                if mk_name == "rand_super_bcsz":
                    kw = {"rank": int(rng.integers(1, N * N + 1)), "enforce_tp": True}
                Sm = twice(mk_name, lambda s: getattr(qutip, mk_name)(dform, seed=s, **kw), sd, dict(data, **kw))
                if Sm is not None:
                    sdims = [want_dims, want_dims]
                    chk(mk_name, Sm.issuper and Sm.iscp and Sm.istp and Sm.dims == sdims, f"{mk_name}({dform}) is not a CPTP map with dims {sdims}: iscp {Sm.iscp}, istp {Sm.istp}, dims {Sm.dims}", dict(data, **kw))
                    if mk_name == "rand_super_bcsz" and N >= 2:
                        ch = qutip.to_choi(Sm).full()
                        rk = int((np.linalg.eigvalsh((ch + ch.conj().T) / 2) > 1e-9).sum())
                        chk("rand_super_bcsz-rank", rk == kw["rank"], f"rand_super_bcsz({dform}, rank={kw['rank']}) has Choi rank {rk}", dict(data, **kw))
    for sig, (what, data) in viol.items():
        rep.violation(core.Violation("C20:" + sig, what, data))
    if (ndis or not proved) and not rep.violations:
        rep.violation(core.Violation("C20:unverified", "model/proof no longer matches the code and no failing input was found",
                                     {"broken": rep.broken}, failing_input_found=False))
    return rep.finish()


if __name__ == "__main__":
    core.main(run, PID)
