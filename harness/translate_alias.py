"""T4 — extract the alias skeleton (Qv.C04.Stmt) of library functions from their Python source.

For each target (file, class, function) the statements are mapped to the IR of lean/Qv/Model/C04.lean:
  x = <name>                      alias
  x = <allocating expression>     fresh     (literals, arithmetic, comprehensions, calls listed in FRESH)
  x = <anything else>             havoc     (attribute / subscript loads, calls that may return an argument)
  x op= e                         choice(mutate x, fresh x)   (in-place if the type defines it, else re-binding)
  obj.attr = e, obj[i] = e        mutate obj
  obj.m(...) with m in MUTATORS   mutate obj
  if/try -> choice, for/while -> loop, everything else skip.
Parameters start outside `own` (they are the caller's); `self` of an `__init__` is fresh.  What is
*assumed* rather than derived — that the calls not listed in MUTATORS do not change their arguments — is
listed per function in the evidence (`assumed_pure_calls`) and validated by the dynamic snapshot table of
harness/c04.py.
"""
import ast
import os
import textwrap

REPO = "/repo"

# calls whose result is a new object (never one of the arguments)
FRESH = {
    "QobjEvo", "Qobj", "liouvillian", "lindblad_dissipator", "sum", "len", "isinstance", "time", "list", "dict",
    "tuple", "set", "range", "enumerate", "zip", "float", "int", "complex", "str", "bool", "abs", "min", "max",
    "sorted", "copy", "deepcopy", "spre", "spost", "sprepost", "tensor", "ket2dm", "operator_to_vector",
    "stack_columns", "unstack_columns", "coefficient", "hasattr", "getattr_static", "type", "id", "callable",
    "array", "zeros", "ones", "empty", "asarray_copy", "linspace", "arange", "concatenate", "cumsum", "diff",
    "ValueError", "TypeError", "RuntimeError", "Exception", "KeyError", "NotImplementedError", "format", "join",
    "dag", "conj", "trans", "to", "unit", "tr", "norm", "full", "expm", "proj", "ptrace", "permute", "overlap",
    "keys", "values", "items", "get_default", "_TrajectorySum", "_restore_state_dm", "qeye_like", "qzero_like",
    "ravel", "reshape_copy", "dot", "matmul", "expect", "add", "mul", "sub", "neg", "kron", "eigenstates",
    "eigenenergies", "_StochasticRHS", "SeedSequence", "spawn", "default_rng", "_InitialConditions",
    "linear_map", "_map", "deepcopy", "_prepare_rhs", "_get_integrator", "_initialize_stats", "__class__",
}
# methods that update their receiver in place
MUTATORS = {
    "append", "extend", "update", "pop", "insert", "remove", "sort", "clear", "setdefault", "popitem", "reverse",
    "arguments", "compress", "tidyup", "add_processor", "add_end_condition", "add", "add_deterministic", "fill",
    "resize", "put", "itemset", "setflags", "_add_feedback", "_register_feedback", "__setitem__", "__iadd__",
    "__imul__", "__imatmul__", "sort_indices", "sum_duplicates",
}
# `add` is both a numeric helper name and a result method: as a *method* it mutates, as a function it is fresh
NUMERIC = (ast.Constant,)


class Tr:
    def __init__(self, fn_name, is_init):
        self.vars = {}
        self.assumed = set()
        self.ctor_calls = set()
        self.recv_names = set()
        self.fn_name = fn_name
        self.is_init = is_init
        self.tmp = 0

    def var(self, name):
        if name not in self.vars:
            self.vars[name] = len(self.vars)
        return self.vars[name]

    def newtmp(self):
        self.tmp += 1
        return self.var(f"%t{self.tmp}")

    # ---- expressions: returns (stmts, value) with value = ("fresh",) | ("var", idx) | ("havoc",) | ("may", [values])
    def name_of(self, node):
        if isinstance(node, ast.Name):
            return node.id
        if isinstance(node, ast.Attribute) and isinstance(node.value, ast.Name) and node.value.id == "self":
            return "self." + node.attr
        return None

    def ev(self, e):
        st = []
        if e is None:
            return st, ("fresh",)
        nm = self.name_of(e)
        if nm is not None:
            return st, ("var", self.var(nm))
        if isinstance(e, (ast.Constant, ast.BinOp, ast.UnaryOp, ast.Compare, ast.JoinedStr, ast.FormattedValue)):
            for sub in ast.iter_child_nodes(e):
                if isinstance(sub, ast.expr):
                    s2, _ = self.ev(sub)
                    st += s2
            return st, ("fresh",)
        if isinstance(e, ast.BoolOp):
            vals = []
            for sub in e.values:
                s2, v = self.ev(sub)
                st += s2
                vals.append(v)
            return st, ("may", vals)
        if isinstance(e, ast.IfExp):
            s0, _ = self.ev(e.test)
            s1, v1 = self.ev(e.body)
            s2, v2 = self.ev(e.orelse)
            return st + s0 + s1 + s2, ("may", [v1, v2])
        if isinstance(e, (ast.List, ast.Tuple, ast.Set)):
            for sub in e.elts:
                s2, _ = self.ev(sub)
                st += s2
            return st, ("fresh",)
        if isinstance(e, ast.Dict):
            for sub in list(e.keys) + list(e.values):
                if sub is not None:
                    s2, _ = self.ev(sub)
                    st += s2
            return st, ("fresh",)
        if isinstance(e, (ast.ListComp, ast.GeneratorExp, ast.SetComp, ast.DictComp)):
            body = []
            for gen in e.generators:
                s2, _ = self.ev(gen.iter)
                st += s2
                body += self.bind_target(gen.target, ("havoc",))
                for cond in gen.ifs:
                    s3, _ = self.ev(cond)
                    body += s3
            elts = [e.key, e.value] if isinstance(e, ast.DictComp) else [e.elt]
            for el in elts:
                s3, _ = self.ev(el)
                body += s3
            if body:
                st.append(("loop", body))
            return st, ("fresh",)
        if isinstance(e, ast.Starred):
            return self.ev(e.value)
        if isinstance(e, (ast.Subscript, ast.Attribute)):
            s2, _ = self.ev(e.value)
            if isinstance(e, ast.Subscript):
                s3, _ = self.ev(e.slice)
                s2 += s3
            return st + s2, ("havoc",)
        if isinstance(e, ast.Call):
            fname = None
            recv = None
            if isinstance(e.func, ast.Name):
                fname = e.func.id
            elif isinstance(e.func, ast.Attribute):
                fname = e.func.attr
                recv = e.func.value
            for a in list(e.args) + [k.value for k in e.keywords]:
                s2, _ = self.ev(a)
                st += s2
            if recv is not None:
                s2, rv = self.ev(recv)
                st += s2
                is_module = isinstance(recv, ast.Name) and recv.id in ("np", "numpy", "scipy", "_data", "warnings", "math", "itertools")
                if fname in MUTATORS and not is_module:
                    st += self.mutate_value(rv)
                    return st, ("fresh",)
            if fname and fname[:1].isupper():
                self.ctor_calls.add(fname)
                return st, ("fresh",)
            if fname in FRESH or (recv is not None and isinstance(recv, ast.Name) and recv.id in ("np", "numpy", "_data", "math")):
                return st, ("fresh",)
            self.assumed.add(fname or "<call>")
            return st, ("havoc",)
        if isinstance(e, ast.Lambda):
            return st, ("fresh",)
        if isinstance(e, ast.Await) or isinstance(e, ast.NamedExpr):
            return st, ("havoc",)
        return st, ("havoc",)

    def mutate_value(self, v):
        if v[0] == "var":
            return [("mutate", v[1])]
        if v[0] == "fresh":
            return []
        t = self.newtmp()
        return self.bind_idx(t, v) + [("mutate", t)]

    def bind_idx(self, x, v):
        if v[0] == "fresh":
            return [("fresh", x)]
        if v[0] == "var":
            return [("alias", x, v[1])] if v[1] != x else []
        if v[0] == "may":
            alts = [self.bind_idx(x, w) for w in v[1]]
            out = alts[0]
            for a in alts[1:]:
                out = [("choice", out, a)]
            return out
        return [("havoc", x)]

    def bind_target(self, tgt, v):
        nm = self.name_of(tgt)
        if nm is not None:
            out = self.bind_idx(self.var(nm), v)
            if nm.startswith("self."):
                out.append(("mutate", self.var("self")))
            return out
        if isinstance(tgt, (ast.Tuple, ast.List)):
            out = []
            for t in tgt.elts:
                out += self.bind_target(t, ("havoc",) if v[0] != "fresh" else ("havoc",))
            return out
        if isinstance(tgt, ast.Starred):
            return self.bind_target(tgt.value, ("havoc",))
        if isinstance(tgt, (ast.Attribute, ast.Subscript)):
            s2, rv = self.ev(tgt.value)
            return s2 + self.mutate_value(rv)
        return []

    # ---- statements
    def block(self, body):
        out = []
        for s in body:
            out += self.stmt(s)
        return out

    def stmt(self, s):
        if isinstance(s, ast.Assign):
            st, v = self.ev(s.value)
            for t in s.targets:
                st += self.bind_target(t, v)
            return st
        if isinstance(s, ast.AnnAssign):
            if s.value is None:
                return []
            st, v = self.ev(s.value)
            return st + self.bind_target(s.target, v)
        if isinstance(s, ast.AugAssign):
            st, _ = self.ev(s.value)
            nm = self.name_of(s.target)
            if nm is not None:
                x = self.var(nm)
                if isinstance(s.value, ast.Constant) and isinstance(s.value.value, (int, float, complex)):
                    return st + [("fresh", x)]          # numeric accumulation re-binds
                extra = [("mutate", self.var("self"))] if nm.startswith("self.") else []
                return st + [("choice", [("mutate", x)], [("fresh", x)])] + extra
            s2, rv = self.ev(s.target.value)
            return st + s2 + self.mutate_value(rv)
        if isinstance(s, ast.Expr):
            st, _ = self.ev(s.value)
            return st
        if isinstance(s, ast.If):
            st, _ = self.ev(s.test)
            return st + [("choice", self.block(s.body), self.block(s.orelse))]
        if isinstance(s, (ast.For, ast.AsyncFor)):
            st, _ = self.ev(s.iter)
            is_range = isinstance(s.iter, ast.Call) and isinstance(s.iter.func, ast.Name) and s.iter.func.id in ("range",)
            it_name = self.name_of(s.iter)
            if it_name in self.recv_names:
                elem = ("var", self.var(it_name))        # the elements of a declared receiver belong to it
            else:
                elem = ("fresh",) if is_range else ("havoc",)
            body = self.bind_target(s.target, elem) + self.block(s.body)
            return st + [("loop", body)] + self.block(s.orelse)
        if isinstance(s, ast.While):
            st, _ = self.ev(s.test)
            return st + [("loop", self.block(s.body) + self.ev(s.test)[0])] + self.block(s.orelse)
        if isinstance(s, ast.Try):
            out = self.block(s.body)
            for h in s.handlers:
                out = [("choice", out, out + self.block(h.body))]
            return out + self.block(s.orelse) + self.block(s.finalbody)
        if isinstance(s, (ast.With, ast.AsyncWith)):
            st = []
            for item in s.items:
                s2, v = self.ev(item.context_expr)
                st += s2
                if item.optional_vars is not None:
                    st += self.bind_target(item.optional_vars, ("havoc",))
            return st + self.block(s.body)
        if isinstance(s, ast.Return):
            st, _ = self.ev(s.value)
            return st
        if isinstance(s, ast.Delete):
            out = []
            for t in s.targets:
                if isinstance(t, (ast.Subscript, ast.Attribute)):
                    s2, rv = self.ev(t.value)
                    out += s2 + self.mutate_value(rv)
            return out
        return []


def to_lean(st):
    """list of IR tuples -> Lean term"""
    def one(s):
        k = s[0]
        if k == "fresh":
            return f"(.fresh {s[1]})"
        if k == "alias":
            return f"(.alias {s[1]} {s[2]})"
        if k == "havoc":
            return f"(.havoc {s[1]})"
        if k == "mutate":
            return f"(.mutate {s[1]})"
        if k == "choice":
            return f"(.choice {to_lean(s[1])} {to_lean(s[2])})"
        if k == "loop":
            return f"(.loop {to_lean(s[1])})"
        raise ValueError(k)
    if not st:
        return ".skip"
    out = one(st[-1])
    for s in reversed(st[:-1]):
        out = f"(.seq {one(s)} {out})"
    return out


def to_json(st):
    def one(s):
        k = s[0]
        if k in ("fresh", "havoc", "mutate"):
            return [k, s[1]]
        if k == "alias":
            return [k, s[1], s[2]]
        if k == "choice":
            return [k, to_json(s[1]), to_json(s[2])]
        return [k, to_json(s[1])]
    if not st:
        return ["skip"]
    out = one(st[-1])
    for s in reversed(st[:-1]):
        out = ["seq", one(s), out]
    return out


def count(st):
    n = 0
    for s in st:
        n += 1
        if s[0] == "choice":
            n += count(s[1]) + count(s[2])
        elif s[0] == "loop":
            n += count(s[1])
    return n


def find_function(tree, cls, fn):
    scope = tree.body
    if cls:
        for node in tree.body:
            if isinstance(node, ast.ClassDef) and node.name == cls:
                scope = node.body
                break
        else:
            return None
    for node in scope:
        if isinstance(node, (ast.FunctionDef, ast.AsyncFunctionDef)) and node.name == fn:
            return node
    return None


# (file, class or None, function, receivers that the function is *declared* to update)
TARGETS = [
    ("qutip/solver/solver_base.py", "Solver", "__init__", []),
    ("qutip/solver/sesolve.py", "SESolver", "__init__", []),
    ("qutip/solver/mesolve.py", "MESolver", "__init__", []),
    ("qutip/solver/mcsolve.py", "MCSolver", "__init__", []),
    ("qutip/solver/mcsolve.py", "_MCRHS", "__init__", []),
    ("qutip/solver/mcsolve.py", "_MCRHS", "arguments", ["self", "self.rhs", "self.c_ops", "self.n_ops"]),
    ("qutip/solver/multitraj.py", "_MultiTrajRHS", "arguments", ["self", "self.rhs"]),
    ("qutip/solver/solver_base.py", "Solver", "_argument", ["self", "self.rhs", "self._integrator"]),
    ("qutip/solver/nm_mcsolve.py", "NonMarkovianMCSolver", "__init__", []),
    ("qutip/solver/multitraj.py", "MultiTrajSolver", "__init__", []),
    ("qutip/solver/brmesolve.py", "BRSolver", "__init__", []),
    ("qutip/solver/stochastic.py", "StochasticSolver", "__init__", []),
    ("qutip/solver/stochastic.py", "_StochasticRHS", "__init__", []),
    ("qutip/solver/floquet.py", "FMESolver", "__init__", []),
    ("qutip/solver/krylovsolve.py", None, "krylovsolve", []),
    ("qutip/solver/sesolve.py", None, "sesolve", []),
    ("qutip/solver/mesolve.py", None, "mesolve", []),
    ("qutip/solver/mcsolve.py", None, "mcsolve", []),
    ("qutip/solver/nm_mcsolve.py", None, "nm_mcsolve", []),
    ("qutip/solver/brmesolve.py", None, "brmesolve", []),
    ("qutip/solver/stochastic.py", None, "smesolve", []),
    ("qutip/solver/stochastic.py", None, "ssesolve", []),
    ("qutip/solver/result.py", "_BaseResult", "__init__", []),
    ("qutip/solver/result.py", "Result", "__init__", []),
    ("qutip/solver/multitrajresult.py", "MultiTrajResult", "__init__", []),
    ("qutip/solver/multitrajresult.py", "MultiTrajResult", "__add__", []),
    ("qutip/solver/multitrajresult.py", "_TrajectorySum", "merge", []),
    # helpers that take a caller's dictionary or list and hand something derived from it on
    ("qutip/solver/solver_base.py", None, "_solver_deprecation", ["kwargs"]),
    ("qutip/solver/parallel.py", None, "_get_map", []),
    ("qutip/core/environment.py", "ExponentialBosonicEnvironment", "__init__", []),
    ("qutip/core/environment.py", "ExponentialFermionicEnvironment", "__init__", []),
]


def translate(repo=REPO):
    """info[name] = {found, path, stmts, vars, recv, assumed_pure_calls, ir (Lean term), json}"""
    info = {}
    names = []
    for path, cls, fn, recv in TARGETS:
        name = (cls + "_" if cls else "") + fn.strip("_")
        full = os.path.join(repo, path)
        node = None
        if os.path.exists(full):
            try:
                node = find_function(ast.parse(open(full).read()), cls, fn)
            except SyntaxError:
                node = None
        if node is None:
            info[name] = {"found": False, "path": path}
            continue
        tr = Tr(name, fn == "__init__")
        tr.recv_names = set(recv)
        params = [a.arg for a in node.args.posonlyargs + node.args.args + node.args.kwonlyargs]
        if node.args.vararg:
            params.append(node.args.vararg.arg)
        if node.args.kwarg:
            params.append(node.args.kwarg.arg)
        pre = []
        for p in params:
            tr.var(p)
        is_method = cls is not None and params and params[0] == "self"
        own0 = []
        if is_method and fn == "__init__":
            pre.append(("fresh", tr.var("self")))
        elif is_method:
            # a method may update its own object only if declared; reading self.* yields caller objects
            pass
        body = pre + tr.block(node.body)
        recv_idx = [tr.vars[r] for r in recv if r in tr.vars]
        # variables that are not parameters start undefined: they refer to no caller object (reading one
        # raises); the fields of the receiver of a non-constructor method are the caller's
        is_ctor = fn == "__init__"
        locals_idx = [i for nm, i in tr.vars.items()
                      if nm not in params and (is_ctor or not nm.startswith("self."))]
        recv_idx = sorted(set(recv_idx + locals_idx))
        info[name] = {"found": True, "path": path, "stmts": count(body), "vars": len(tr.vars), "recv": recv_idx,
                      "assumed_pure_calls": sorted(x for x in tr.assumed if x), "constructor_calls": sorted(tr.ctor_calls), "ir": to_lean(body), "json": to_json(body),
                      "varnames": dict(tr.vars)}
        names.append(name)
    return info


def render(info, safe):
    """Lean source of Qv/Gen/AliasIR.lean: one definition per skeleton, one `decide` obligation per skeleton
    the analysis accepts (the refused ones are reported by the harness as broken obligations)"""
    lines = ["import Qv.Model.C04", "/-! Regenerated on every run by harness/translate_alias.py from /repo — do not edit. -/",
             "namespace Qv.Gen.AliasIR", "open Qv.C04", ""]
    for name, v in info.items():
        if not v.get("found"):
            continue
        lines.append(f"/-- `{v['path']}` {name} ({v['stmts']} statements, {v['vars']} variables) -/")
        lines.append(f"def ir_{name} : Stmt := {v['ir']}")
        if safe.get(name):
            recv = "[" + ", ".join(str(i) for i in v["recv"]) + "]"
            lines.append(f"theorem ok_{name} : safeExcept {recv} ir_{name} = true := by decide")
        lines.append("")
    lines.append("end Qv.Gen.AliasIR")
    return "\n".join(lines) + "\n"


if __name__ == "__main__":
    info = translate()
    for k, v in info.items():
        print(k, {a: b for a, b in v.items() if a not in ("ir", "json", "varnames")})
