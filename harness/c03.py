"""C03 — cached Hermitian/unitary flags never contradict the object's matrix.

1. T1: the propagation rules of /repo are tabulated behaviourally (translate_flags.py) into
   lean/Qv/Gen/FlagRules.lean; the obligations `ruleAllowed op table` are decided by the Lean kernel.
   Qv.Props.C03 proves that allowed rules keep every cache sound for every history.
2. A rule that over-claims is searched for a concrete failing input through the public API
   (operands with the required properties from a pool, flags read first to populate the caches).
3. History oracle (independent of the model): random programs over exactly representable operators
   with flag reads interleaved; every non-None raw cache of every object is compared with the flag
   recomputed from the entries by a fresh object.  Raw caches produced by catalogued operations
   must also be the ones the tabulated rules predict (correspondence of the rule model).
"""
import json
import os
import sys

import numpy as np

sys.path.insert(0, os.path.dirname(os.path.abspath(__file__)))
import core
import translate_flags as tf

PID = "C03"


def truth(q):
    """flags recomputed from the entries; None when borderline (between the tolerances)"""
    import qutip
    a = q.full()
    if not np.all(np.isfinite(a)):
        return None, None
    if a.size and 0 < np.abs(a).max() < 1e-6:
        return None, None      # numerically zero but not zero: any tolerance-based predicate is arbitrary here
    if a.shape[0] != a.shape[1]:
        return False, False
    dh = np.abs(a - a.conj().T).max() if a.size else 0.0
    du = np.abs(a @ a.conj().T - np.eye(a.shape[0])).max() if a.size else 0.0
    scale = 1 + np.abs(a).max() if a.size else 1.0
    h = True if dh < 1e-13 * scale else (False if dh > 1e-8 * scale else None)
    u = True if du < 1e-13 * scale ** 2 else (False if du > 1e-8 else None)
    fresh = qutip.Qobj(a.copy(), dims=q.dims)
    if h is not None and fresh.isherm != h:
        h = None      # the library's own predicate disagrees with the plain definition: borderline
    if u is not None and fresh.isunitary != u:
        u = None
    return h, u


def check_obj(q, where):
    """returns list of (signature, description) for caches of q contradicting its entries"""
    out = []
    h, u = truth(q)
    if q._isherm is not None and h is not None and bool(q._isherm) != h:
        out.append((f"isherm:{where}", f"{where}: cached isherm={q._isherm} but the matrix is {'Hermitian' if h else 'not Hermitian'}"))
    if q._isunitary is not None and u is not None and bool(q._isunitary) != u:
        out.append((f"isunitary:{where}", f"{where}: cached isunitary={q._isunitary} but the matrix is {'unitary' if u else 'not unitary'}"))
    return out


# ---------------------------------------------------------------------------
# pool of exactly representable operators
def base_pool():
    import qutip
    s2 = 1 / np.sqrt(2)
    mats = {
        "I": np.eye(2), "X": [[0, 1], [1, 0]], "Y": [[0, -1j], [1j, 0]], "Z": [[1, 0], [0, -1]],
        "iX": [[0, 1j], [1j, 0]], "iI": [[1j, 0], [0, 1j]], "2I": [[2, 0], [0, 2]], "hI": [[.5, 0], [0, .5]],
        "D12": [[1, 0], [0, 2]], "N": [[0, 1], [0, 0]], "J": [[1, 1], [0, 1]], "A": [[0, 2], [.5, 0]],
        "S": [[1, 0], [0, 1j]], "P0": [[1, 0], [0, 0]], "ipiZ": [[1j * np.pi, 0], [0, -1j * np.pi]],
        "Had": [[s2, s2], [s2, -s2]], "Z0": [[0, 0], [0, 0]], "iY": [[0, 1], [-1, 0]],
    }
    out = {k: qutip.Qobj(np.array(v, dtype=complex)) for k, v in mats.items()}
    # objects as the library's own constructors hand them out (with their literal flags)
    ctors = {
        "c_num": lambda: qutip.num(2), "c_destroy": lambda: qutip.destroy(2), "c_create": lambda: qutip.create(2),
        "c_qeye": lambda: qutip.qeye(2), "c_qzero": lambda: qutip.qzero(2), "c_sigmax": qutip.sigmax,
        "c_sigmay": qutip.sigmay, "c_sigmaz": qutip.sigmaz, "c_sigmap": qutip.sigmap, "c_sigmam": qutip.sigmam,
        "c_position": lambda: qutip.position(2), "c_momentum": lambda: qutip.momentum(2),
        "c_displace": lambda: qutip.displace(2, 0.5), "c_squeeze": lambda: qutip.squeeze(2, 0.25),
        "c_fock_dm": lambda: qutip.fock_dm(2, 1), "c_qdiags": lambda: qutip.qdiags([0.5, 0.5], 0),
        "c_qdiags_m": lambda: qutip.qdiags([-1.0, 1.0], 0),
        "c_qdiags_im": lambda: qutip.qdiags([-1.0j, 1.0], 0), "c_qdiags_off0": lambda: qutip.qdiags([0.0], 1),
        "c_qdiags_off": lambda: qutip.qdiags([1.0], -1), "c_qft": lambda: qutip.qft(2),
        "c_hadamard": lambda: qutip.gates.hadamard_transform(1), "c_phase": lambda: qutip.gates.phasegate(np.pi / 2),
        "c_rx": lambda: qutip.gates.rx(np.pi / 2), "c_ry": lambda: qutip.gates.ry(np.pi), "c_snot": lambda: qutip.gates.snot(),
        "c_sqrtnot": lambda: qutip.gates.sqrtnot(), "c_s": lambda: qutip.gates.s_gate(), "c_t": lambda: qutip.gates.t_gate(),
        "c_jmat_x": lambda: qutip.jmat(0.5, "x"), "c_jmat_p": lambda: qutip.jmat(0.5, "+"), "c_charge": lambda: qutip.charge(0, 1),
        "c_tunneling": lambda: qutip.tunneling(2), "c_projection": lambda: qutip.projection(2, 0, 1),
        "c_rand_herm": lambda: qutip.rand_herm(2, seed=1), "c_rand_unitary": lambda: qutip.rand_unitary(2, seed=1),
        "c_rand_dm": lambda: qutip.rand_dm(2, seed=1), "c_globalphase": lambda: qutip.gates.globalphase(0.5),
        # rectangular objects from the constructors: never Hermitian, never unitary
        "c_qzero_rect": lambda: qutip.qzero(2, dims_right=3), "c_qdiags_rect": lambda: qutip.qdiags([1, 1], 0, shape=(2, 3)),
        "c_qzero_like_ket": lambda: qutip.qzero_like(qutip.basis(2, 0)),
    }
    # diagonal storage as SciPy hands it over: the diagonals in any order (+k before -k, main diagonal last, ...)
    import scipy.sparse as sp

    def dia(offsets, a00, a01, a10, a11):
        rows = {0: [a00, a11], 1: [0, a01], -1: [a10, 0]}
        return qutip.Qobj(sp.dia_matrix((np.array([rows[o] for o in offsets], dtype=complex), offsets), shape=(2, 2)))
    ctors.update({
        "d_herm_0pm": lambda: dia([0, 1, -1], 1, 2 - 1j, 2 + 1j, -1), "d_herm_pm": lambda: dia([1, -1], 0, 1j, -1j, 0),
        "d_herm_p0m": lambda: dia([1, 0, -1], 2, 1, 1, 3), "d_nonherm_pm": lambda: dia([1, -1], 0, 1, 2, 0),
        "d_nonherm_0pm": lambda: dia([0, 1, -1], 1j, 1, 1, 1), "d_unit_pm": lambda: dia([1, -1], 0, 1j, 1j, 0),
        "d_herm_mp": lambda: dia([-1, 1], 0, 0.5j, -0.5j, 0),
    })
    # stored entries far below the tolerance without a stored partner (a directed cycle): Hermitian by the definition, in
    # every storage format
    def tiny_cycle(n, fmt):
        base = qutip.num(n, dtype="csr") + 0.5
        cyc = qutip.Qobj(1e-13 * np.roll(np.eye(n), 1, axis=1), dtype="csr")
        return (base + cyc).to(fmt)
    ctors.update({"t_cycle3_csr": lambda: tiny_cycle(3, "csr"), "t_cycle4_csr": lambda: tiny_cycle(4, "csr"), "t_cycle3_dense": lambda: tiny_cycle(3, "dense"),
                  "t_cycle3_dia": lambda: tiny_cycle(3, "dia"), "t_cycle5_csr": lambda: tiny_cycle(5, "csr")})
    # ill-conditioned Hermitian operators: rounding in a factorisation is amplified far above every tolerance, so the flags
    # of what is computed from them are facts about the computed entries, not about the exact result
    def hilbert(n, fmt):
        q = qutip.Qobj(np.array([[1.0 / (i + j + 1) for j in range(n)] for i in range(n)], dtype=complex)).to(fmt)
        q.isherm
        return q
    ctors.update({"ill_hilbert12_csr": lambda: hilbert(12, "csr"), "ill_hilbert14_csr": lambda: hilbert(14, "csr"), "ill_hilbert12_dense": lambda: hilbert(12, "dense")})
    for k, f in ctors.items():
        try:
            out[k] = f()
        except Exception:
            pass
    return out


EXTRA = []      # findings an operation reports itself (drained by run_program)
CAPPED = []     # operations that were replaced by a copy of their operand to keep the sizes small (drained by run_program)

UNARY = {
    "neg": lambda q: -q, "dag": lambda q: q.dag(), "trans": lambda q: q.trans(), "conj": lambda q: q.conj(),
    "pow0": lambda q: q ** 0, "pow2": lambda q: q ** 2, "pow3": lambda q: q ** 3, "copy": lambda q: q.copy(),
    "to_dense": lambda q: q.to("dense"), "to_csr": lambda q: q.to("csr"), "to_dia": lambda q: q.to("dia"),
    "mul2": lambda q: q * 2.0, "rmul_half": lambda q: 0.5 * q, "div4": lambda q: q / 4.0, "mul_m1": lambda q: q * -1.0,
    "mul_i": lambda q: q * 1j, "mul_1pi": lambda q: q * (1 + 1j), "div_i": lambda q: q / 1j,
    "expm": lambda q: q.expm(), "sqrtm": lambda q: q.sqrtm(), "logm": lambda q: q.logm(),
    "cosm": lambda q: q.cosm(), "sinm": lambda q: q.sinm(), "inv": lambda q: q.inv(), "inv_sparse": lambda q: q.inv(sparse=True),
    "unit": lambda q: q.unit(), "unit_inplace": lambda q: q.copy().unit(inplace=True),
    "unit_max": lambda q: q.unit(norm="max"), "unit_max_inplace": lambda q: q.copy().unit(inplace=True, norm="max"),
    "unit_fro_inplace": lambda q: q.copy().unit(inplace=True, norm="fro"), "unit_one_inplace": lambda q: q.copy().unit(inplace=True, norm="one"),
    "tidyup": lambda q: q.copy().tidyup(), "tidyup_coarse": lambda q: _tidyup_coarse(q), "proj_col": None, "ptrace": None,
    "spre": None, "spost": None, "to_super": None, "liouvillian": None, "dissipator": None,
    "evo_const": None, "evo_td": None, "permute": None, "transform": None, "contract": None,
    "sesolve_prop": None, "mesolve_dm": None, "mesolve_any_h": None, "propagator": None, "steadystate": None,
    "to_choi": None, "to_chi": None, "to_super_rt": None,
    "evo_complex_coeff": None, "transform_kets": None, "transform_matrix": None, "solver_reuse_me": None, "solver_reuse_se": None,
    "tensor_swap_left": None, "tensor_swap_right": None, "tensor_swap_both": None, "tensor_swap_cross": None,
    "dissipator_chi": None, "liouvillian_chi": None, "dissipator_pair": None, "expand_operator": None, "super_tensor": None,
    "trunc_neg": lambda q: q.trunc_neg() if q.isherm else q,
    "sadd_real": lambda q: q + 0.5, "rssub_real": lambda q: 0.5 - q, "sadd_imag_pos": lambda q: q + 0.15j,
    "sadd_imag_neg": lambda q: q + (-0.15j), "rsadd_imag_neg": lambda q: (-0.15j) + q, "ssub_imag_pos": lambda q: q - 0.15j,
    "rssub_imag_neg": lambda q: (-0.15j) - q, "rssub_imag_pos": lambda q: 0.15j - q, "sadd_complex": lambda q: q + (1 - 0.25j),
    "ssub_real_int": lambda q: q - 2, "sadd_np": lambda q: q + np.complex128(-0.5j),
}
BINARY = {
    "add": lambda a, b: a + b, "sub": lambda a, b: a - b, "matmul": lambda a, b: a @ b, "mul": lambda a, b: a * b,
    "tensor": None, "sprepost": None, "commutator": None, "anticomm": None, "radd_scalar": None,
    "set_data": lambda a, b: _set_data(a, b),
}


def _set_data(a, b):
    """in-place replacement of the entries through the public setter, after the flags of the object were read"""
    r = a.copy()
    r.isherm
    r.isunitary
    if b.shape == r.shape:
        r.data = b.data.copy()
    return r


def _tidyup_coarse(q):
    """in-place tidy-up with a threshold that removes entries of order one half, after the flags were read"""
    r = q.copy()
    r.isherm
    r.isunitary
    return r.tidyup(0.8)


def apply_op(name, args, rng):
    import qutip
    if name in UNARY and UNARY[name] is not None:
        return UNARY[name](args[0])
    if name in BINARY and BINARY[name] is not None:
        return BINARY[name](args[0], args[1])
    q = args[0]
    # constructions that square the dimension (superoperators) or multiply it (tensor products) are kept small: an
    # 81-dimensional operand would give a 6561-dimensional generator, minutes of CPU for nothing the property is about
    if q.shape[0] > 9 and name in ("spre", "spost", "to_super", "liouvillian", "dissipator", "dissipator_chi", "liouvillian_chi", "dissipator_pair",
                                   "to_choi", "to_chi", "to_super_rt", "super_tensor", "mesolve_dm", "steadystate", "propagator", "ptrace", "permute",
                                   "tensor_swap_left", "tensor_swap_right", "tensor_swap_both", "tensor_swap_cross", "expand_operator", "contract"):
        CAPPED.append(name)
        return q.copy()
    if name == "proj_col":
        return qutip.Qobj(q.full()[:, :1]).proj()
    if name == "ptrace":
        if not (q.dims == args[1].dims and q.isoper):
            return q.copy()
        big = qutip.tensor(q, args[1])
        r = rng.integers(0, 4)          # intermediate objects may have been inspected
        if r & 1:
            big.isherm
        if r & 2:
            big.isunitary
        return big.ptrace(int(rng.integers(0, 2)))
    if name == "spre":
        return qutip.spre(q)
    if name == "spost":
        return qutip.spost(q)
    if name == "to_super":
        return qutip.to_super(q)
    if name == "liouvillian":
        return qutip.liouvillian(q)
    if name == "dissipator":
        return qutip.lindblad_dissipator(q)
    if name == "evo_const":
        return qutip.QobjEvo(q)(0.5)
    if name == "evo_td":
        return qutip.QobjEvo([q, [args[1], lambda t: t]])(2.0) if q.dims == args[1].dims else q.copy()
    if name == "evo_complex_coeff":
        # a coefficient whose imaginary part is tiny next to one, on an operator with large entries
        if q.dims != args[1].dims:
            return q.copy()
        big = args[1] * float(rng.choice([1.0, 1e5, 1e7]))
        if rng.random() < 0.7 and q.isoper and not q.issuper:
            # both terms Hermitian, with the fact known to them
            q = q + q.dag()
            big = big + big.dag()
            q.isherm
            big.isherm
        z = [1 + 5e-13j, 1 - 9e-13j, 1j, 1 + 1e-3j, 2.0 + 0j, 1 + 3e-11j][int(rng.integers(0, 6))]
        ev = qutip.QobjEvo([q, [big, lambda t, z=z: z * (1.0 + 0.0 * t)]])
        out = ev(2.0) if rng.random() < 0.7 else (ev + qutip.QobjEvo([[big, lambda t, z=z: np.conj(z) * t]]))(0.5)
        # a sum of scaled operators has no rounding to speak of: here the library's own predicate (absolute tolerance on
        # the entries) is the definition, also for large entries where the history oracle compares relatively
        # ... provided the operands themselves are Hermitian (or not) by their entries, not merely within the tolerance:
        # an operand that is Hermitian up to 1e-16 and scaled by 1e7 is a tolerance artefact of the scaling, not of the sum
        def _exact(x_):
            xm = x_.full()
            d_ = float(np.abs(xm - xm.conj().T).max())
            return d_ == 0 or d_ > 1e-9 * (1 + float(np.abs(xm).max()))
        if out._isherm is not None and _exact(q) and _exact(big):
            am = out.full()
            dev = float(np.abs(am - am.conj().T).max())
            fresh = bool(qutip.Qobj(am.copy(), dims=out.dims).isherm)
            if bool(out._isherm) != fresh and (dev > 1e-9 or dev < 1e-15):
                EXTRA.append(("isherm:evo_complex_coeff", f"QobjEvo evaluated with coefficient {z} on entries of size {np.abs(am).max():.1e}: cached isherm={out._isherm} but the matrix deviates from Hermitian by {dev:.1e} (isherm recomputed: {fresh})"))
        return out
    if name == "permute":
        if not (q.isoper and args[1].isoper and not q.issuper and not args[1].issuper):
            return q.copy()
        t = qutip.tensor(q, args[1])
        r = rng.integers(0, 4)
        if r & 1:
            t.isherm
        if r & 2:
            t.isunitary
        return t.permute([1, 0])
    if name.startswith("tensor_swap"):
        if not (q.isoper and args[1].isoper and not q.issuper and not args[1].issuper):
            return q.copy()
        t = qutip.tensor(q, args[1])
        r = rng.integers(0, 4)
        if r & 1:
            t.isherm
        if r & 2:
            t.isunitary
        pairs = {"tensor_swap_left": [(0, 1)], "tensor_swap_right": [(2, 3)], "tensor_swap_both": [(0, 1), (2, 3)], "tensor_swap_cross": [(0, 2)]}[name]
        return qutip.tensor_swap(t, *pairs)
    if name in ("dissipator_chi", "liouvillian_chi", "dissipator_pair"):
        if not (q.isoper and not q.issuper):
            return q.copy()
        if rng.random() < 0.6:
            q.isherm
        chi = float(rng.choice([0.7, -1.3, np.pi / 2]))
        if name == "dissipator_chi":
            return qutip.lindblad_dissipator(q, chi=chi)
        if name == "liouvillian_chi":
            return qutip.liouvillian(None, [q], chi=[chi])
        return qutip.lindblad_dissipator(q, args[1]) if args[1].isoper and not args[1].issuper and args[1].dims == q.dims else q.copy()
    if name == "expand_operator":
        if not (q.isoper and not q.issuper and q.dims == [[2], [2]]):
            return q.copy()
        if rng.random() < 0.5:
            q.isherm
            q.isunitary
        return qutip.expand_operator(q, dims=[2, 3, 2], targets=int(rng.integers(0, 3)) if False else [0, 2][int(rng.integers(0, 2))])
    if name == "super_tensor":
        sq = q if q.issuper else (qutip.to_super(q) if q.isoper and q.dims == [[2], [2]] else None)
        so = args[1] if args[1].issuper else (qutip.spre(args[1]) if args[1].isoper and args[1].dims == [[2], [2]] else None)
        if sq is None or so is None or sq.dims != [[[2], [2]], [[2], [2]]] or so.dims != sq.dims:
            return q.copy()
        if rng.random() < 0.5:
            sq.isherm
            so.isherm
        return qutip.super_tensor(sq, so)
    if name == "transform":
        return q.transform(qutip.Qobj(np.array([[0, 1], [1, 0]], dtype=complex))) if q.dims == [[2], [2]] else q.copy()
    if name == "transform_kets":
        if q.dims != [[2], [2]]:
            return q.copy()
        which = int(rng.integers(0, 4))
        b0, b1 = qutip.basis(2, 0), qutip.basis(2, 1)
        kets = [[b0, (b0 + b1).unit()], [0.5 * b0, b1], [(b0 + 1j * b1).unit(), (b0 - 1j * b1).unit()], [b1, b0]][which]
        return q.transform(kets, bool(rng.integers(0, 2)))
    if name == "transform_matrix":
        if q.dims != [[2], [2]]:
            return q.copy()
        which = int(rng.integers(0, 3))
        m = [np.array([[1, 1], [0, 1]], dtype=complex), np.array([[0, 1j], [1j, 0]], dtype=complex), np.array([[2, 0], [0, 1]], dtype=complex)][which]
        return q.transform(m if rng.random() < 0.5 else qutip.Qobj(m), bool(rng.integers(0, 2)))
    if name in ("solver_reuse_me", "solver_reuse_se"):
        # a solver object used for one state and then for another one with the same dims: outputs describe their own matrix
        if q.dims != [[2], [2]]:
            return q.copy()
        H = 0.3 * qutip.sigmax() + 0.2 * qutip.sigmaz()
        if name == "solver_reuse_me":
            sol = qutip.MESolver(H, [0.4 * qutip.destroy(2)], options={"progress_bar": ""})
            first = qutip.fock_dm(2, 0)
        else:
            sol = qutip.SESolver(H, options={"progress_bar": ""})
            first = qutip.qeye(2)
        order = int(rng.integers(0, 3))
        if order == 0:
            sol.run(first, [0, 0.3])
            return sol.run(q, [0, 0.4]).states[-1]
        if order == 1:
            q.isherm
            sol.run(q, [0, 0.3])
            return sol.run(first, [0, 0.4]).states[-1]
        sol.start(first, 0)
        sol.step(0.2)
        sol.start(q, 0)
        return sol.step(0.3)
    if name == "contract":
        return qutip.tensor(q, qutip.qeye(1)).contract() if q.isoper and not q.issuper else q.copy()
    if name in ("to_choi", "to_chi", "to_super_rt"):
        sq = q if q.issuper else (qutip.spre(q) if q.isoper and q.dims == [[2], [2]] else None)
        if sq is None or sq.dims != [[[2], [2]], [[2], [2]]]:
            return q.copy()
        if rng.random() < 0.5:
            sq.isherm
        if name == "to_choi":
            return qutip.to_choi(sq)
        if name == "to_chi":
            return qutip.to_chi(sq)
        return qutip.to_super(qutip.to_choi(sq))
    if name == "sesolve_prop":
        if q.dims != [[2], [2]]:
            return q.copy()
        H = (q + q.dag()) * 0.5
        return qutip.sesolve(H, qutip.qeye(2), [0, 0.0, 1.0], options={"progress_bar": ""}).states[int(rng.integers(0, 3))]
    if name == "mesolve_dm":
        if q.dims != [[2], [2]]:
            return q.copy()
        H = (q + q.dag()) * 0.5
        return qutip.mesolve(H, qutip.fock_dm(2, 0), [0, 0.5], c_ops=[qutip.destroy(2)], options={"progress_bar": ""}).states[-1]
    if name == "mesolve_any_h":
        # the operator itself (Hermitian or not) as the Hamiltonian of a master equation started from a density matrix
        # whose flag is known; and a user's superoperator as the generator
        if q.dims != [[2], [2]]:
            return q.copy()
        r0 = qutip.fock_dm(2, 0) * 0.5 + qutip.fock_dm(2, 1) * 0.5 + 0.2 * qutip.sigmax()
        r0.isherm
        if rng.random() < 0.5:
            out_ = qutip.mesolve(q, r0, [0, 0.5], c_ops=[qutip.destroy(2)], options={"progress_bar": ""}).states[-1]
        else:
            out_ = qutip.mesolve(qutip.spre(q), r0, [0, 0.5], options={"progress_bar": ""}).states[-1]
        big_ = float(np.abs(out_.full()).max())
        if not np.isfinite(big_) or big_ > 50:
            return q.copy()       # a growing evolution: entries far from order one only exercise the tolerances
        return out_
    if name == "propagator":
        if q.dims != [[2], [2]]:
            return q.copy()
        H = (q + q.dag()) * 0.5
        return qutip.propagator(H, [0, 1.0])[int(rng.integers(0, 2))]
    if name == "steadystate":
        if q.dims != [[2], [2]]:
            return q.copy()
        return qutip.steadystate((q + q.dag()) * 0.5, [qutip.destroy(2)])
    if name == "tensor":
        if q.shape[0] * args[1].shape[0] > 100:
            CAPPED.append(name)
            return q.copy()
        return qutip.tensor(q, args[1])
    if name == "sprepost":
        if q.shape[0] > 9 or args[1].shape[0] > 9:
            CAPPED.append(name)
            return q.copy()
        return qutip.sprepost(q, args[1])
    if name == "commutator":
        return qutip.commutator(q, args[1])
    if name == "anticomm":
        return qutip.commutator(q, args[1], kind="anti")
    if name == "radd_scalar":
        return 2 + q
    raise KeyError(name)


def gen_program(rng, tier):
    """a program: list of steps (op name, operand indices) / reads, over a store seeded by the pool"""
    # the ill-conditioned operators are large: they take part in the fixed programs of corpus/C03 only
    names = [k for k in base_pool().keys() if not k.startswith("ill_")]
    k0 = int(rng.integers(2, 5))
    init = [names[int(i)] for i in rng.choice(len(names), size=k0, replace=False)]
    L = int(rng.integers(3, 10 if tier == "quick" else 25))
    steps = []
    n = k0
    opnames = list(UNARY) + list(BINARY)
    for _ in range(L):
        r = rng.random()
        if r < 0.3:
            steps.append(["read", int(rng.integers(0, n)), str(rng.choice(["isherm", "isunitary", "both"]))])
        else:
            op = str(rng.choice(opnames))
            steps.append(["op", op, int(rng.integers(0, n)), int(rng.integers(0, n))])
            n += 1
    return {"init": init, "steps": steps}


def run_program(prog, rules=None):
    """executes the program on real Qobj; returns (violations, rule_mismatches, nops)"""
    import qutip
    pool = base_pool()
    store = [pool[k].copy() for k in prog["init"]]
    labels = list(prog["init"])
    viol = []
    mism = []
    nops = 0
    rng = np.random.default_rng(len(prog["steps"]) + 7 * len(prog["init"]))
    tainted = set()          # objects whose wrong cache was inherited from an operand (root cause reported there)
    for k, (q, lab) in enumerate(zip(store, labels)):
        for sig, what in check_obj(q, "constructor:" + lab):
            viol.append((sig, f"{what}; object {lab}"))
            tainted.add(k)
    for st in prog["steps"]:
        if st[0] == "read":
            q = store[st[1]]
            if st[2] in ("isherm", "both"):
                q.isherm
            if st[2] in ("isunitary", "both"):
                q.isunitary
            continue
        _, op, i, j = st
        a, b = store[i], store[j]
        pre = (a._isherm, a._isunitary, b._isherm, b._isunitary)
        try:
            with core.time_limit(20):
                res = apply_op(op, [a, b], rng)
        except core.CaseTimeout:
            raise
        except Exception:
            res = a.copy()      # operation refused these operands (dims, singular, ...): not a flag matter
            op = op + "(refused)"
        if not isinstance(res, qutip.Qobj):
            res = a.copy()
        store.append(res)
        labels.append(f"{op}({labels[i]},{labels[j]})" if op in BINARY else f"{op}({labels[i]})")
        nops += 1
        capped = bool(CAPPED)
        del CAPPED[:]
        if rules is not None and op in rules and res.isoper and a.isoper and b.isoper and not capped:
            for flag, idx in (("H", 0), ("U", 1)):
                key = (op, flag)
                if key in rules[op]:
                    pa, pb = pre[idx], pre[2 + idx]
                    got = res._isherm if flag == "H" else res._isunitary
                    got = None if got is None else bool(got)
                    if got not in rules[op][key](pa, pb):
                        mism.append(f"{op}.{flag}: caches ({pa},{pb}) -> {got}, tabulated {sorted(map(str, rules[op][key](pa, pb)))}")
        # a wrong cache is attributed to the operation that created it, not to those that forward it
        arity2 = op in BINARY or op in ("ptrace", "evo_td", "permute", "evo_complex_coeff", "tensor_swap_left", "tensor_swap_right", "tensor_swap_both",
                                        "tensor_swap_cross", "dissipator_pair", "super_tensor")
        operands_bad = (i in tainted) or (arity2 and j in tainted) or bool(check_obj(a, "x")) or (arity2 and bool(check_obj(b, "x")))
        if None in truth(a) or (arity2 and None in truth(b)):
            operands_bad = True      # borderline operand: whatever follows is a tolerance artefact
        while EXTRA:
            viol.append(EXTRA.pop())
        probs = check_obj(res, op)
        if probs:
            tainted.add(len(store) - 1)
            if not operands_bad:
                for sig, what in probs:
                    viol.append((sig, f"{what}; object {labels[-1]}"))
        # reading flags / in-place operations must not leave wrong caches on the operands either
        for q, lab, k in ((a, labels[i], i), (b, labels[j], j)):
            if k not in tainted:
                for sig, what in check_obj(q, op + ":operand"):
                    viol.append((sig, f"{what}; object {lab}"))
                    tainted.add(k)
    return viol, mism, nops


def shrink_program(prog, sig):
    cur = prog
    changed = True

    def bad(p):
        try:
            v, _, _ = run_program(p)
        except Exception:
            return False
        return any(s == sig for s, _ in v)
    while changed:
        changed = False
        for j in range(len(cur["steps"]) - 1, -1, -1):
            st = cur["steps"][j]
            # removing an op shifts indices of later objects: only drop trailing-safe steps
            if st[0] == "op":
                n_before = len(cur["init"]) + sum(1 for s in cur["steps"][:j] if s[0] == "op")
                later = cur["steps"][j + 1:]
                if any((s[0] == "read" and s[1] >= n_before) or (s[0] == "op" and (s[2] >= n_before or s[3] >= n_before)) for s in later):
                    continue
            cand = {"init": cur["init"], "steps": cur["steps"][:j] + cur["steps"][j + 1:]}
            if bad(cand):
                cur, changed = cand, True
                break
    return cur


# ---------------------------------------------------------------------------
def witness_search(site, flag, a, b, r):
    """an over-claiming rule entry (operand caches a,b -> claim r): find operands from the pool with
    those properties for which the claim is false, going through the public API only."""
    import qutip
    arity, f, _, _ = tf.sites()[site]
    pool = base_pool()
    found = None
    for ka, qa in pool.items():
        for kb, qb in (pool.items() if arity == 2 else [("-", None)]):
            x = qa.copy()
            y = qb.copy() if qb is not None else None
            ok = True
            for q, c in ((x, a), (y, b)):
                if q is None or c is None:
                    continue
                val = q.isherm if flag == "H" else q.isunitary     # public read populates the cache
                if val != c:
                    ok = False
            if not ok:
                continue
            try:
                res = f(x, y) if arity == 2 else f(x)
            except Exception:
                continue
            probs = check_obj(res, site)
            probs = [p for p in probs if p[0].startswith("isherm" if flag == "H" else "isunitary")]
            if probs:
                found = {"site": site, "flag": flag, "operands": [ka, kb], "operand_caches": [a, b],
                         "claimed": r, "what": probs[0][1]}
                return found
    return found


def run(tier, seed, replay):
    rep = core.Report(PID, tier, seed)
    rep.rule = ("rule tables: exhaustive over operand caches {None,True,False}^2 x catalogue sites (behavioural "
                "tabulation); histories: random programs of 3-25 steps over 18 exactly representable 2x2 operators, "
                "45 operations, flag reads interleaved; non-trivial = program with at least 2 operations and 1 read")
    rep.assumptions = [
        "a propagation rule depends only on the operand caches and the operation (checked against random histories)",
        "flags are recomputed from the entries both by definition and by a fresh Qobj; borderline deviations (1e-13..1e-8) are skipped",
    ]
    core.build_repo()
    import qutip  # noqa
    # --- T1: regenerate the rule tables from /repo
    tables = tf.tabulate()
    core.write_if_changed(os.path.join(core.LEAN, "Qv", "Gen", "FlagRules.lean"), tf.render(tables))
    proved = core.prove(rep, ["Qv.Model.C03", "Qv.Proofs.C03", "Qv.Props.C03"], "Qv.Props.C03")
    ok_gen, log = core.lake_build(["Qv.Gen.FlagRules"])
    rep.obligations += len(tables)
    res = core.run_driver(["C03.overclaims " + json.dumps({"op": op, "table": t}) for _, op, t in tables])
    over = []
    for (name, op, t), r in zip(tables, res):
        if r.get("allowed") is True:
            rep.discharged += 1 if ok_gen else 0
        else:
            over.append((name, op, r.get("overclaims", r)))
    if not ok_gen or over:
        rep.broken.append({"kind": "generated obligations", "module": "Qv.Gen.FlagRules", "overclaiming": over[:30],
                           "log_tail": "" if ok_gen else log[-800:]})
    rep.notes["rule_tables"] = len(tables)
    rep.notes["rule_sample"] = [{"site": n, "op": o, "table": t} for n, o, t in tables[:3]]
    if tier == "thorough":
        core.leanchecker(rep, ["Qv.Props.C03", "Qv.Gen.FlagRules"] if ok_gen else ["Qv.Props.C03"])
    # --- failing-input search for over-claiming entries
    unresolved = []
    for name, op, entries in over:
        site, flag = name.rsplit("_", 2)[0], name.rsplit("_", 2)[1]
        hit = None
        for a, b, r in entries:
            hit = witness_search(site, flag, a, b, r)
            if hit:
                break
        if hit:
            rep.violation(core.Violation(f"C03:{'isherm' if flag == 'H' else 'isunitary'}:{site}", hit["what"], hit))
        else:
            unresolved.append(name)
    # --- rule lookup for the correspondence of the rule model
    rules = {}
    for name, op, t in tables:
        site, flag, _ = name.rsplit("_", 2)
        idx = {None: 0, True: 1, False: 2}
        rules.setdefault(_site_to_histop(site), {}).setdefault((_site_to_histop(site), flag), []).append(t)
    lookup = {}
    for hop, d in rules.items():
        lookup[hop] = {}
        for key, ts in d.items():
            def mk(ts=ts):
                idx = {None: 0, True: 1, False: 2}
                return lambda a, b: {t[idx[None if a is None else bool(a)]][idx[None if b is None else bool(b)]] for t in ts}
            lookup[hop][key] = mk()
    # --- history oracle
    rng = np.random.default_rng(seed)
    if replay:
        progs = [json.load(open(replay))["replay"]["case"]]
    else:
        progs = []
        d = os.path.join(core.VERIF, "corpus", PID)
        if os.path.isdir(d):
            for f in sorted(os.listdir(d)):
                progs.append(json.load(open(os.path.join(d, f)))["case"])
        progs += [gen_program(rng, tier) for _ in range(500 if tier == "quick" else 5000)]
    nmis = 0
    first_mis = None
    for p in progs:
        try:
            viol, mism, nops = run_program(p, lookup)
        except Exception as e:
            rep.violation(core.Violation("C03:crash", repr(e)[:300], {"case": p}))
            continue
        reads = sum(1 for s in p["steps"] if s[0] == "read")
        rep.case(p, nops >= 2 and reads >= 1)
        for s in p["steps"]:
            rep.count("op=" + (s[1] if s[0] == "op" else "read"))
        seen = set()
        for sig, what in viol:
            if sig in seen:
                continue
            seen.add(sig)
            small = shrink_program(p, sig)
            rep.violation(core.Violation("C03:" + sig, what, {"case": small}))
        if mism:
            nmis += 1
            if first_mis is None:
                first_mis = {"case": p, "mismatch": mism[:5]}
    rep.notes["correspondence_disagreements"] = nmis
    if nmis:
        rep.broken.append({"kind": "correspondence", "which": "tabulated rules vs raw caches in histories",
                           "count": nmis, "first": first_mis})
    if (not proved or nmis or unresolved) and not rep.violations:
        rep.violation(core.Violation("C03:unverified", "obligation / proof / rule correspondence no longer checks and no failing input was found",
                                     {"broken": rep.broken, "unresolved_overclaims": unresolved}, failing_input_found=False))
    return rep.finish()


def _site_to_histop(site):
    return {"mul_qobj": "mul", "mul_real": "mul2", "rmul_real": "rmul_half", "div_real": "div4",
            "mul_minus1": "mul_m1", "mul_complex": "mul_1pi"}.get(site, site)


if __name__ == "__main__":
    core.main(run, PID)
