"""C01 — linear-algebra results do not depend on the storage format of the operands.

Correspondence (exact, Gaussian-integer entries): `csr.from_dense` (stored rows), `dense.from_csr`
(both memory orders, unsorted rows), `add_csr` with scale, `transpose_csr`, `kron_csr`, `Dia.to_array`
(values stored outside the rectangle, unsorted offsets), `dia.from_dense`, transposition of a Dense by
its order flag — against the Lean model Qv.C01.
Oracle: every dispatched operation of `qutip.data` x every combination of operand storage (Dense C,
Dense F, CSR sorted, CSR with unsorted columns and stored zeros, Dia, Dia with unsorted offsets and
values outside the rectangle, objects that carry a SciPy view) x every requested output type x shape
classes (1x1, bra, ket, square, tall 7x3, wide 3x7) x sparsity patterns, against a NumPy reference and
against each other; conversions and container round trips entry by entry; shape mismatches must raise;
in-place tidy-up followed by further operations.
"""
import itertools
import importlib
import json
import os
import sys
import warnings

import numpy as np
import scipy.linalg as sla
import scipy.sparse as sp

sys.path.insert(0, os.path.dirname(os.path.abspath(__file__)))
import core

PID = "C01"
FORMS = ["dense_c", "dense_f", "csr", "csr_unsorted", "dia", "dia_messy", "csr_view", "dia_view"]


def gint(rng, shape, density):
    a = rng.integers(-4, 5, shape) + 1j * rng.integers(-4, 5, shape)
    mask = rng.random(shape) < density
    return np.where(mask, a, 0).astype(complex)


def pattern(rng, shape, kind):
    r, c = shape
    if kind == "empty":
        return np.zeros(shape, complex)
    if kind == "single":
        a = np.zeros(shape, complex)
        a[rng.integers(0, r), rng.integers(0, c)] = complex(rng.integers(1, 5), rng.integers(-4, 5))
        return a
    if kind == "full":
        a = gint(rng, shape, 1.0)
        a[a == 0] = 1
        return a
    if kind == "diagonals":
        a = np.zeros(shape, complex)
        for off in rng.integers(-(r - 1), c, 2):
            for j in range(c):
                i = j - off
                if 0 <= i < r:
                    a[i, j] = complex(rng.integers(1, 5), rng.integers(-4, 5))
        return a
    return gint(rng, shape, float(rng.choice([0.15, 0.4, 0.7])))


def build(arr, form, rng):
    """a Data object holding `arr` in the requested storage form"""
    from qutip import data as _data
    r, c = arr.shape
    if form == "dense_c":
        return _data.Dense(np.ascontiguousarray(arr))
    if form == "dense_f":
        d = _data.Dense(np.asfortranarray(arr), copy=False)
        return d
    if form in ("csr", "csr_view"):
        m = _data.to(_data.CSR, _data.Dense(arr))
        if form == "csr_view":
            m.as_scipy()
        return m
    if form == "csr_unsorted":
        rows, cols, vals = [], [], []
        indptr = [0]
        for i in range(r):
            js = [j for j in range(c) if arr[i, j] != 0]
            extra = [j for j in range(c) if arr[i, j] == 0 and rng.random() < 0.2]      # stored zeros
            allj = js + extra
            rng.shuffle(allj)
            cols += allj
            vals += [arr[i, j] for j in allj]
            indptr.append(len(cols))
        sci = sp.csr_matrix((np.array(vals, dtype=complex), np.array(cols, dtype=np.int32), np.array(indptr, dtype=np.int32)), shape=(r, c))
        return _data.CSR(sci, copy=True)
    if form in ("dia", "dia_view"):
        m = _data.to(_data.Dia, _data.Dense(arr))
        if form == "dia_view":
            m.as_scipy()
        return m
    if form == "dia_messy":
        offs = [o for o in range(-(r - 1), c) if any(0 <= j - o < r and arr[j - o, j] != 0 for j in range(c))]
        offs += [int(o) for o in rng.integers(-(r - 1), c, 1) if int(o) not in offs]       # an all-zero diagonal
        offs = list(dict.fromkeys(offs))
        rng.shuffle(offs)
        if not offs:
            offs = [0]
        data = np.zeros((len(offs), c), dtype=complex)
        for k, o in enumerate(offs):
            for j in range(c):
                i = j - o
                data[k, j] = arr[i, j] if 0 <= i < r else complex(7, -7)                 # garbage outside the rectangle
        if rng.random() < 0.3:
            # SciPy also accepts diagonals that lie entirely outside the matrix: they hold no entry
            for o_out in (c + int(rng.integers(0, 3)), -(r + int(rng.integers(0, 3)))):
                if rng.random() < 0.7:
                    offs.append(o_out)
                    data = np.vstack([data, np.full((1, c), complex(5, 5))])
        sci = sp.dia_matrix((data, np.array(offs, dtype=np.int32)), shape=(r, c))
        return _data.Dia(sci, copy=True)
    raise ValueError(form)


def arr_of(x):
    if sp.issparse(x):
        return x.toarray()
    return x.to_array() if hasattr(x, "to_array") else np.asarray(x)


def run(tier, seed, replay):
    rep = core.Report(PID, tier, seed)
    rep.rule = ("operands: 8 storage forms x 6 shape classes x 5 sparsity patterns with Gaussian-integer entries; operations: every dispatcher of qutip.data with a "
                "NumPy reference x requested output types; non-trivial = result with at least 2 non-zero entries, or a rejected shape")
    rep.assumptions = ["values are compared to 1e-12 x (1 + max |entry|) (exact for ring operations on Gaussian integers), 1e-9 for expm / inv / sqrtm / solve / eigen / svd",
                       "auto_tidyup (default on, atol 1e-14) only drops stored zeros for integer data; the tidy-up threshold is exercised separately by tidyup with an explicit tolerance"]
    core.build_repo()
    proved = core.prove(rep, ["Qv.Model.C01", "Qv.Props.C01", "Qv.Props.C01Dia"], ["Qv.Props.C01", "Qv.Props.C01Dia"])
    if tier == "thorough":
        core.leanchecker(rep, ["Qv.Props.C01", "Qv.Props.C01Dia"])
    import qutip
    from qutip import data as _data
    rng = np.random.default_rng(seed)
    viol = {}
    TYPES = {"Dense": _data.Dense, "CSR": _data.CSR, "Dia": _data.Dia}

    def v(sig, what, data=None):
        if sig not in viol:
            viol[sig] = (what, data or {"what": what})

    def enc(a):
        return [[[int(z.real), int(z.imag)] for z in row] for row in np.asarray(a)]

    def dec(m):
        return np.array([[complex(a, b) for a, b in row] for row in m], dtype=complex).reshape(len(m), -1 if m and len(m[0]) else 0)

    def csr_rows(m):
        s = m.as_scipy(full=True) if False else m.as_scipy()
        out = []
        for i in range(m.shape[0]):
            out.append([[int(s.indices[p]), [int(s.data[p].real), int(s.data[p].imag)]] for p in range(s.indptr[i], s.indptr[i + 1])])
        return out
    shapes_all = [(1, 1), (1, 5), (5, 1), (4, 4), (7, 3), (3, 7), (2, 2), (6, 6)]
    kinds = ["empty", "single", "full", "diagonals", "random"]
    # ------------------------------------------------------------------ correspondence with the model
    lines, expect = [], []
    for _ in range(40 if tier == "quick" else 300):
        shape = shapes_all[int(rng.integers(0, len(shapes_all)))]
        a = pattern(rng, shape, str(rng.choice(kinds)))
        b = pattern(rng, shape, str(rng.choice(kinds)))
        rep.case({"model": [list(shape)]}, np.count_nonzero(a) >= 2)
        for fortran in (False, True):
            D = build(a, "dense_f" if fortran else "dense_c", rng)
            C = _data.csr.from_dense(D)
            lines.append("C01.csr_of_dense " + json.dumps({"m": enc(a), "rows": shape[0], "cols": shape[1], "fortran": fortran}))
            expect.append(("csr_of_dense", {"r": csr_rows(C), "back_c": _data.dense.from_csr(C, False).to_array(), "back_f": _data.dense.from_csr(C, True).to_array(),
                                            "tview": _data.transpose(D).to_array(), "tfortran": bool(_data.transpose(D).fortran) != bool(D.fortran)}))
            DI = _data.dia.from_dense(D)
            lines.append("C01.dia_of_dense " + json.dumps({"m": enc(a), "rows": shape[0], "cols": shape[1], "fortran": fortran}))
            expect.append(("dia_of_dense", {"abs": DI.to_array(), "offsets": sorted(int(o) for o in DI.as_scipy().offsets)}))
        U = build(a, "csr_unsorted", rng)
        Ub = build(b, "csr_unsorted", rng)
        ja = {"rows": shape[0], "cols": shape[1], "r": csr_rows(U)}
        jb = {"rows": shape[0], "cols": shape[1], "r": csr_rows(Ub)}
        lines.append("C01.dense_of_csr " + json.dumps({"a": ja, "fortran": bool(rng.integers(0, 2))}))
        expect.append(("dense_of_csr", U.to_array()))
        sc = complex(rng.integers(-3, 4), rng.integers(-3, 4))
        lines.append("C01.add_csr " + json.dumps({"a": ja, "b": jb, "scale": [int(sc.real), int(sc.imag)]}))
        expect.append(("abs", _data.add_csr(U, Ub, sc).to_array()))
        lines.append("C01.transpose_csr " + json.dumps({"a": ja}))
        expect.append(("abs", _data.transpose_csr(U).to_array()))
        small = pattern(rng, (int(rng.integers(1, 4)), int(rng.integers(1, 4))), "random")
        S = build(small, "csr_unsorted", rng)
        lines.append("C01.kron_csr " + json.dumps({"a": ja, "b": {"rows": small.shape[0], "cols": small.shape[1], "r": csr_rows(S)}}))
        expect.append(("abs", _data.kron_csr(U, S).to_array()))
        inner = pattern(rng, (shape[1], int(rng.integers(1, 5))), str(rng.choice(kinds)))
        Ui = build(inner, "csr_unsorted", rng)
        lines.append("C01.matmul_csr " + json.dumps({"a": ja, "b": {"rows": inner.shape[0], "cols": inner.shape[1], "r": csr_rows(Ui)}, "scale": [int(sc.real), int(sc.imag)]}))
        expect.append(("abs", _data.matmul_csr(U, Ui, sc).to_array()))
        M = build(a, "dia_messy", rng)
        sci = M.as_scipy()
        lines.append("C01.dia_abs " + json.dumps({"a": {"rows": shape[0], "cols": shape[1],
                                                         "diags": [[int(o), [[int(z.real), int(z.imag)] for z in row]] for o, row in zip(sci.offsets, sci.data)]}}))
        expect.append(("absraw", M.to_array()))
        # matmul_dia on operands with distinct offsets in any stored order and arbitrary values outside the rectangle
        def dia_json(D):
            sc_ = D.as_scipy()
            return {"rows": D.shape[0], "cols": D.shape[1], "diags": [[int(o), [[int(z.real), int(z.imag)] for z in row]] for o, row in zip(sc_.offsets, sc_.data)]}

        def messy_unique(arr):
            D = build(arr, "dia_messy", rng)
            return D if len(set(int(o) for o in D.as_scipy().offsets)) == D.num_diag else build(arr, "dia", rng)
        inner_d = pattern(rng, (shape[1], int(rng.integers(1, 5))), str(rng.choice(kinds)))
        DL, DR = messy_unique(a), messy_unique(inner_d)
        lines.append("C01.matmul_dia " + json.dumps({"a": dia_json(DL), "b": dia_json(DR), "scale": [int(sc.real), int(sc.imag)]}))
        prod = _data.matmul_dia(DL, DR, sc)
        expect.append(("abs_offsets", prod.to_array(), sorted(int(o) for o in prod.as_scipy().offsets)))
        # iadd_dense: the buffers themselves, all four combinations of memory orders
        iadd = importlib.import_module("qutip.core.data.add").iadd_dense
        other = pattern(rng, shape, "full")
        for lf in (False, True):
            for rf in (False, True):
                Ld = _data.Dense(np.array(a, order="F" if lf else "C"), copy=False)
                Rd = _data.Dense(np.array(other, order="F" if rf else "C"), copy=False)

                def buf(D, f_):
                    return [[int(z.real), int(z.imag)] for z in D.as_ndarray().ravel(order="F" if f_ else "C")]
                lines.append("C01.iadd_dense " + json.dumps({"l": {"rows": shape[0], "cols": shape[1], "fortran": bool(Ld.fortran), "data": buf(Ld, bool(Ld.fortran))},
                                                              "r": {"rows": shape[0], "cols": shape[1], "fortran": bool(Rd.fortran), "data": buf(Rd, bool(Rd.fortran))}, "scale": [int(sc.real), int(sc.imag)]}))
                res_ = iadd(Ld, Rd, sc)
                expect.append(("buffer", buf(res_, bool(res_.fortran)), res_.to_array()))
        # matmul_csr_dense_dense into `out`: CSR with unsorted rows, right and out in every combination of memory orders
        mcd = importlib.import_module("qutip.core.data.matmul").matmul_csr_dense_dense
        rgt = pattern(rng, (shape[1], int(rng.integers(1, 4))), "full")
        outb = pattern(rng, (shape[0], rgt.shape[1]), "full")
        for rf in (False, True):
            for of_ in (False, True):
                Rd = _data.Dense(np.array(rgt, order="F" if rf else "C"), copy=False)
                Od = _data.Dense(np.array(outb, order="F" if of_ else "C"), copy=False)
                lines.append("C01.matmul_csr_dense " + json.dumps({"a": ja, "b": {"rows": rgt.shape[0], "cols": rgt.shape[1], "fortran": bool(Rd.fortran), "data": buf(Rd, bool(Rd.fortran))},
                                                                    "out": {"rows": outb.shape[0], "cols": outb.shape[1], "fortran": bool(Od.fortran), "data": buf(Od, bool(Od.fortran))}, "scale": [int(sc.real), int(sc.imag)]}))
                with warnings.catch_warnings():
                    warnings.simplefilter("ignore")
                    res_ = mcd(U, Rd, sc, Od)
                expect.append(("buffer", buf(res_, bool(res_.fortran)), res_.to_array()))
        # matmul_dia_dense_dense: messy Dia operand, right / out in both memory orders, with and without out, scale 1 and not
        mdd = importlib.import_module("qutip.core.data.matmul").matmul_dia_dense_dense
        for rf in (False, True):
            for of_ in (None, False, True):
                for sc_ in (1, sc):
                    Rd = _data.Dense(np.array(rgt, order="F" if rf else "C"), copy=False)
                    Od = None if of_ is None else _data.Dense(np.array(outb, order="F" if of_ else "C"), copy=False)
                    req = {"a": dia_json(DL), "b": {"rows": rgt.shape[0], "cols": rgt.shape[1], "fortran": bool(Rd.fortran), "data": buf(Rd, bool(Rd.fortran))},
                           "out": None if Od is None else {"rows": outb.shape[0], "cols": outb.shape[1], "fortran": bool(Od.fortran), "data": buf(Od, bool(Od.fortran))},
                           "scale": [int(complex(sc_).real), int(complex(sc_).imag)]}
                    lines.append("C01.matmul_dia_dense " + json.dumps(req))
                    with warnings.catch_warnings():
                        warnings.simplefilter("ignore")
                        res_ = mdd(DL, Rd, sc_, Od)
                    expect.append(("buffer", buf(res_, bool(res_.fortran)), res_.to_array()))
        # matmul_dense_dia_dense: dense left operand in both orders, messy Dia right operand
        mddr = importlib.import_module("qutip.core.data.matmul").matmul_dense_dia_dense
        lft = pattern(rng, (int(rng.integers(1, 4)), shape[0]), "full")
        outc = pattern(rng, (lft.shape[0], shape[1]), "full")
        for lf in (False, True):
            for of_ in (None, False, True):
                for sc_ in (1, sc):
                    Ld2 = _data.Dense(np.array(lft, order="F" if lf else "C"), copy=False)
                    Od = None if of_ is None else _data.Dense(np.array(outc, order="F" if of_ else "C"), copy=False)
                    req = {"a": {"rows": lft.shape[0], "cols": lft.shape[1], "fortran": bool(Ld2.fortran), "data": buf(Ld2, bool(Ld2.fortran))}, "b": dia_json(DL),
                           "out": None if Od is None else {"rows": outc.shape[0], "cols": outc.shape[1], "fortran": bool(Od.fortran), "data": buf(Od, bool(Od.fortran))},
                           "scale": [int(complex(sc_).real), int(complex(sc_).imag)]}
                    lines.append("C01.matmul_dense_dia " + json.dumps(req))
                    with warnings.catch_warnings():
                        warnings.simplefilter("ignore")
                        res_ = mddr(Ld2, DL, sc_, Od)
                    expect.append(("buffer", buf(res_, bool(res_.fortran)), res_.to_array()))
        # add_dia on operands in the library's normal form (increasing offsets)
        DAs, DBs = build(a, "dia", rng), build(other, "dia", rng)
        if all(np.all(np.diff(D.as_scipy().offsets) > 0) for D in (DAs, DBs)):
            lines.append("C01.add_dia " + json.dumps({"a": dia_json(DAs), "b": dia_json(DBs), "scale": [int(sc.real), int(sc.imag)]}))
            expect.append(("abs", _data.add_dia(DAs, DBs, sc).to_array()))
        for cj in (False, True):
            lines.append("C01.transpose_dia " + json.dumps({"a": dia_json(DL), "conj": cj}))
            tr_ = _data.adjoint_dia(DL) if cj else _data.transpose_dia(DL)
            expect.append(("abs_offsets", tr_.to_array(), sorted(int(o) for o in tr_.as_scipy().offsets)))
        # inner_dia / inner_op_dia: states stored by diagonals, the left one given as a ket and as a bra; the operator is
        # this case's matrix (square, wide or tall) in the library's diagonal form
        _inner = importlib.import_module("qutip.core.data.inner")
        OPd = build(a, "dia", rng)
        lvec, rvec, lvec2 = (pattern(rng, (n_, 1), str(rng.choice(["full", "random"]))) for n_ in (shape[0], shape[1], shape[1]))
        Rk = _data.to(_data.Dia, _data.Dense(rvec))
        for lb in (False, True):
            Lk = _data.to(_data.Dia, _data.Dense(lvec.conj().T.copy() if lb else lvec))
            L2 = _data.to(_data.Dia, _data.Dense(lvec2.conj().T.copy() if lb else lvec2))
            for flag in (False, True):
                lines.append("C01.inner_op_dia " + json.dumps({"left": dia_json(Lk), "op": dia_json(OPd), "right": dia_json(Rk), "scalar_is_ket": flag}))
                expect.append(("value", complex(_inner.inner_op_dia(Lk, OPd, Rk, flag))))
                lines.append("C01.inner_dia " + json.dumps({"left": dia_json(L2), "right": dia_json(Rk), "scalar_is_ket": flag}))
                expect.append(("value", complex(_inner.inner_dia(L2, Rk, flag))))
        # isherm_dia: Hermitian, non-Hermitian and nearly Hermitian matrices with their diagonals stored in any order
        if shape[0] == shape[1]:
            herm = a + a.conj().T
            near = herm.copy()
            near[int(rng.integers(0, shape[0])), int(rng.integers(0, shape[0]))] += 1j
            cands = [herm, a, near, np.diag(np.diag(herm)), np.triu(herm)]
        else:
            cands = [a]
        _props = importlib.import_module("qutip.core.data.properties")
        for cand in cands:
            for _ in range(2):
                Dh = messy_unique(cand)
                lines.append("C01.isherm_dia " + json.dumps({"a": dia_json(Dh)}))
                expect.append(("isherm", bool(_props.isherm_dia(Dh)), bool(np.array_equal(cand, cand.conj().T)) and shape[0] == shape[1]))
        # trace_dia, expect_dia (ket and density-matrix loops) on square operators with shuffled diagonals
        if shape[0] == shape[1]:
            _expect = importlib.import_module("qutip.core.data.expect")
            _trace = importlib.import_module("qutip.core.data.trace")
            for _ in range(2):
                OPm = messy_unique(a)
                lines.append("C01.trace_dia " + json.dumps({"a": dia_json(OPm)}))
                expect.append(("value", complex(_trace.trace_dia(OPm))))
                kv = pattern(rng, (shape[0], 1), str(rng.choice(["full", "random"])))
                Kd = _data.to(_data.Dia, _data.Dense(kv))
                lines.append("C01.expect_dia " + json.dumps({"op": dia_json(OPm), "state": dia_json(Kd)}))
                expect.append(("value", complex(_expect.expect_dia(OPm, Kd))))
                if shape[0] > 1:
                    RHOm = messy_unique(pattern(rng, shape, str(rng.choice(kinds))))
                    lines.append("C01.expect_dia " + json.dumps({"op": dia_json(OPm), "state": dia_json(RHOm)}))
                    expect.append(("value", complex(_expect.expect_dia(OPm, RHOm))))
        # inner_csr / inner_op_csr: the left state as a ket and as a bra (its entries unsorted), operator rows unsorted
        def csr_json0(C):
            return {"rows": C.shape[0], "cols": C.shape[1], "r": csr_rows(C)}
        OPu = build(a, "csr_unsorted", rng)
        lv_, rv_, lv2_ = (pattern(rng, (n_, 1), str(rng.choice(["full", "random"]))) for n_ in (shape[0], shape[1], shape[1]))
        Rc_ = _data.to(_data.CSR, _data.Dense(rv_))
        for lb in (False, True):
            Lc_ = build(lv_.conj().T.copy(), "csr_unsorted", rng) if lb else _data.to(_data.CSR, _data.Dense(lv_))
            L2_ = build(lv2_.conj().T.copy(), "csr_unsorted", rng) if lb else _data.to(_data.CSR, _data.Dense(lv2_))
            lines.append("C01.inner_op_csr " + json.dumps({"left": csr_json0(Lc_), "op": csr_json0(OPu), "right": csr_json0(Rc_)}))
            expect.append(("value", complex(_inner.inner_op_csr(Lc_, OPu, Rc_, False))))
            lines.append("C01.inner_csr " + json.dumps({"left": csr_json0(L2_), "right": csr_json0(Rc_)}))
            expect.append(("value", complex(_inner.inner_csr(L2_, Rc_, False))))
        # expect_csr (ket and density-matrix loops) and expect_super_csr: operator rows unsorted, states in the library's form
        if shape[0] == shape[1]:
            _expect = importlib.import_module("qutip.core.data.expect")

            def csr_json(C):
                return {"rows": C.shape[0], "cols": C.shape[1], "r": csr_rows(C)}
            OPc = build(a, "csr_unsorted", rng)
            kv = pattern(rng, (shape[0], 1), str(rng.choice(["full", "random"])))
            Kc = _data.to(_data.CSR, _data.Dense(kv))
            lines.append("C01.expect_csr " + json.dumps({"op": csr_json(OPc), "state": csr_json(Kc)}))
            expect.append(("value", complex(_expect.expect_csr(OPc, Kc))))
            if shape[0] > 1:
                RHOc = build(pattern(rng, shape, str(rng.choice(kinds))), "csr_unsorted", rng)
                lines.append("C01.expect_csr " + json.dumps({"op": csr_json(OPc), "state": csr_json(RHOc)}))
                expect.append(("value", complex(_expect.expect_csr(OPc, RHOc))))
            nn = int(round(np.sqrt(shape[0])))
            if nn * nn == shape[0]:
                lines.append("C01.expect_super_csr " + json.dumps({"op": csr_json(OPc), "state": csr_json(Kc), "n": nn}))
                expect.append(("value", complex(_expect.expect_super_csr(OPc, Kc))))
    model = core.run_driver(lines)
    ndis, first = 0, None
    for line, ex, m in zip(lines, expect, model):
        bad = None
        if isinstance(m, dict) and "error" in m:
            bad = {"model": m}
        elif ex[0] == "csr_of_dense":
            e = ex[1]
            if m["r"] != e["r"] or not np.array_equal(dec(m["back_c"]), e["back_c"]) or not np.array_equal(dec(m["back_f"]), e["back_f"]) \
                    or not np.array_equal(dec(m["transposed_view"]), e["tview"]) or not e["tfortran"]:
                bad = {"model_rows": m["r"], "impl_rows": e["r"]}
        elif ex[0] == "buffer":
            if m["data"] != ex[1] or not np.array_equal(dec(m["abs"]), ex[2]):
                bad = {"model_buffer": m["data"][:12], "impl_buffer": ex[1][:12]}
        elif ex[0] == "abs_offsets":
            if not np.array_equal(dec(m["abs"]), ex[1]) or (sorted(m["offsets"]) != ex[2] and np.abs(ex[1]).max() > 0):
                bad = {"model_offsets": m["offsets"], "impl_offsets": ex[2]}
        elif ex[0] == "dia_of_dense":
            e = ex[1]
            nz = sorted(o for o, vals in m["diags"] if any(a_ or b_ for a_, b_ in vals))
            if not np.array_equal(dec(m["abs"]), e["abs"]) or not set(nz) <= set(e["offsets"]):
                bad = {"model_offsets": nz, "impl_offsets": e["offsets"]}
        elif ex[0] == "dense_of_csr":
            if not np.array_equal(dec(m["assign"]), ex[1]):
                bad = {"model": m["assign"], "impl": str(ex[1].tolist())}
        elif ex[0] == "isherm":
            if bool(m["isherm"]) != ex[1]:
                bad = {"model": m["isherm"], "impl": ex[1]}
            if ex[1] != ex[2]:
                v("isherm_dia:any-order", f"isherm_dia answers {ex[1]} for a matrix that is {'Hermitian' if ex[2] else 'not Hermitian'} (diagonals stored in shuffled order)", {"op": line[:400]})
        elif ex[0] == "value":
            if complex(m["value"][0], m["value"][1]) != ex[1]:
                bad = {"model": m["value"], "impl": str(ex[1])}
        elif ex[0] == "abs":
            if not np.array_equal(dec(m["abs"]), ex[1]):
                bad = {"model": m["abs"], "impl": str(ex[1].tolist())}
        else:
            if not np.array_equal(dec(m), ex[1]):
                bad = {"model": m, "impl": str(ex[1].tolist())}
        if bad:
            ndis += 1
            if first is None:
                first = dict(bad, op=line[:300])
    rep.notes["correspondence_disagreements"] = ndis
    rep.notes["correspondence_lines"] = len(lines)
    if ndis:
        rep.broken.append({"kind": "correspondence", "count": ndis, "first": first})
    # ------------------------------------------------------------------ oracle: operations x storage forms x output types
    def check(name, got, want, forms, out, tol=1e-12, data=None):
        rep.evaluations += 1
        rep.count("op=" + name.split("[")[0])
        try:
            g = arr_of(got) if not np.isscalar(got) else got
        except Exception as e:      # noqa
            v(f"{name}:unreadable", f"{name} on {forms} -> {out}: result cannot be read ({type(e).__name__})")
            return
        w = np.asarray(want)
        g = np.asarray(g)
        if w.dtype == bool or g.dtype == bool:
            w, g = w.astype(float), g.astype(float)
        if g.shape != w.shape and not (g.size == 1 and w.size == 1):
            v(f"{name}:shape", f"{name} on {forms} (output {out}): shape {g.shape}, expected {w.shape}", data)
            return
        scale = 1 + (np.abs(w).max() if w.size else 0)
        if w.size and np.abs(g.reshape(w.shape) - w).max() > tol * scale:
            v(f"{name}:{'+'.join(forms)}->{out}", f"{name} on operands stored as {forms} (output {out}) differs from the NumPy result by {np.abs(g.reshape(w.shape) - w).max():.2e}", data)
        if out in TYPES and hasattr(got, "to_array") and not isinstance(got, TYPES[out]):
            v(f"{name}:outtype", f"{name} with dtype={out} returned {type(got).__name__}", data)

    NO_OUT = {"tidyup", "zeros_like", "identity_like"}

    def attempt(name, fn, forms, out, want, tol=1e-12, data=None):
        if out is not None and name in NO_OUT:
            return
        try:
            with warnings.catch_warnings():
                warnings.simplefilter("ignore")
                with core.time_limit(60):
                    got = fn()
        except core.CaseTimeout:
            raise
        except NotImplementedError:
            rep.count("not-implemented")
            return
        except Exception as e:
            if want is None:
                rep.count("rejected")
                return
            v(f"{name}:raises:{type(e).__name__}", f"{name} on operands stored as {forms} (output {out}) raises {type(e).__name__}: {e}"[:240], data)
            return
        if want is None:
            v(f"{name}:accepts-bad-shape", f"{name} computed a result of shape {getattr(got, 'shape', None)} for operands whose shapes do not fit ({forms})", data)
            return
        check(name, got, want, forms, out, tol, data)
    outs = [None, "Dense", "CSR", "Dia"]
    # quick: the six shape classes once, then rectangular operands with several stored diagonals
    plan = [(shapes_all[i], kinds[i % len(kinds)]) for i in range(6)] + [((7, 3), "full"), ((3, 7), "diagonals"), ((3, 7), "full"), ((4, 4), "random")]
    if tier == "thorough":
        plan += [(shapes_all[int(rng.integers(0, len(shapes_all)))], str(rng.choice(kinds))) for _ in range(24)]
    for it, (shape, kind_a) in enumerate(plan):
        r, c = shape
        A = pattern(rng, shape, kind_a)
        B = pattern(rng, shape, str(rng.choice(kinds)))
        Bt = pattern(rng, (c, int(rng.choice([1, 3, c]))), str(rng.choice(kinds)))
        rep.case({"shape": list(shape), "kind": kind_a}, np.count_nonzero(A) >= 2)
        # every run sees the three storage types against themselves; the messy variants are sampled
        forms_sel = FORMS if tier == "thorough" else list(dict.fromkeys(["dense_c", "csr", "dia"] + list(rng.permutation(FORMS)[:3])))
        data = {"shape": list(shape), "A": str(A.tolist())}
        for fa in forms_sel:
            XA = build(A, fa, rng)
            # unary operations
            for out in outs:
                kw = {} if out is None else {"dtype": TYPES[out]}
                attempt("neg", lambda: _data.neg(XA, **kw), [fa], out, -A, data=data)
                attempt("mul", lambda: _data.mul(XA, 2 - 3j, **kw), [fa], out, (2 - 3j) * A, data=data)
                attempt("transpose", lambda: _data.transpose(XA, **kw), [fa], out, A.T, data=data)
                attempt("conj", lambda: _data.conj(XA, **kw), [fa], out, A.conj(), data=data)
                attempt("adjoint", lambda: _data.adjoint(XA, **kw), [fa], out, A.conj().T, data=data)
                attempt("tidyup", lambda: _data.tidyup(XA.copy(), 2.5, False), [fa], out,
                        np.where(np.abs(A.real) < 2.5, 0, A.real) + 1j * np.where(np.abs(A.imag) < 2.5, 0, A.imag), data=data)
                attempt("column_stack", lambda: _data.column_stack(XA.copy(), **kw), [fa], out, A.reshape(-1, 1, order="F"), data=data)
                attempt("reshape", lambda: _data.reshape(XA, c, r, **kw), [fa], out, A.reshape(c, r), data=data)
                for r2 in ([d_ for d_ in range(1, r * c + 1) if (r * c) % d_ == 0 and d_ not in (r, c)][:4] if out is None else []):
                    attempt("reshape-factors", lambda: _data.reshape(XA, r2, (r * c) // r2), [fa], out, A.reshape(r2, (r * c) // r2), data=data)
                attempt("zeros_like", lambda: _data.zeros_like(XA), [fa], out, np.zeros_like(A), data=data)
                if r == c:
                    attempt("pow", lambda: _data.pow(XA, 3, **kw), [fa], out, np.linalg.matrix_power(A, 3), data=data)
                    attempt("identity_like", lambda: _data.identity_like(XA), [fa], out, np.eye(r), data=data)
                    attempt("expm", lambda: _data.expm(_data.mul(XA, 0.125), **kw), [fa], out, sla.expm(0.125 * A), tol=1e-9, data=data)
                    if r in (4, 6):
                        d1, d2 = 2, r // 2
                        full = A.reshape(d1, d2, d1, d2)
                        attempt("ptrace0", lambda: _data.ptrace(XA, [d1, d2], [0], **kw), [fa], out, np.einsum("ajbj->ab", full), data=data)
                        attempt("ptrace1", lambda: _data.ptrace(XA, [d1, d2], [1], **kw), [fa], out, np.einsum("iaib->ab", full), data=data)
                        perm = full.transpose(1, 0, 3, 2).reshape(r, r)
                        attempt("permute.dimensions", lambda: _data.permute.dimensions(XA, [d1, d2], [1, 0], **kw), [fa], out, perm, data=data)
                    idx = rng.permutation(r)
                    Pm = np.zeros_like(A)
                    Pm[np.ix_(idx, idx)] = A
                    attempt("permute.indices", lambda: _data.permute.indices(XA, idx, idx, **kw), [fa], out, Pm, data=data)
                if c == 1 and r == 5:
                    pass
                if c == 1:
                    attempt("project", lambda: _data.project(XA, **kw), [fa], out, A @ A.conj().T, data=data)
                    if r == 4:
                        attempt("column_unstack", lambda: _data.column_unstack(XA.copy(), 2, **kw), [fa], out, A.reshape(2, 2, order="F"), data=data)
                if r == 1:
                    attempt("project", lambda: _data.project(XA, **kw), [fa], out, A.conj().T @ A, data=data)
            # scalars and predicates
            attempt("trace", lambda: _data.trace(XA), [fa], None, np.trace(A) if r == c else None, data=data)
            attempt("norm.frobenius", lambda: _data.norm.frobenius(XA), [fa], None, np.linalg.norm(A), data=data)
            attempt("norm.max", lambda: _data.norm.max(XA), [fa], None, np.abs(A).max() if A.size else 0, data=data)
            attempt("norm.one", lambda: _data.norm.one(XA), [fa], None, np.abs(A).sum(axis=0).max(), data=data)
            if 1 in shape:
                attempt("norm.l2", lambda: _data.norm.l2(XA), [fa], None, np.linalg.norm(A), data=data)
            if r == c and r <= 4:
                attempt("norm.trace", lambda: _data.norm.trace(XA), [fa], None, np.linalg.svd(A, compute_uv=False).sum(), tol=1e-7, data=data)
            else:
                # rectangular and larger operands: the sparse route takes square roots of eigenvalues of X X+ and carries
                # about 1e-8 of noise per vanishing eigenvalue
                attempt("norm.trace", lambda: _data.norm.trace(XA), [fa], None, np.linalg.svd(A, compute_uv=False).sum(), tol=2e-6, data=data)
            attempt("iszero", lambda: bool(_data.iszero(XA)), [fa], None, not A.any(), data=data)
            attempt("isdiag", lambda: bool(_data.isdiag(XA)), [fa], None, not (A - np.diag(np.diag(A)) if r == c else A * (1 - np.eye(r, c))).any(), data=data)
            if r == c:
                attempt("isherm", lambda: bool(_data.isherm(XA)), [fa], None, bool(np.array_equal(A, A.conj().T)), data=data)
                Hh = A + A.conj().T
                XH = build(Hh, fa, rng)
                attempt("isherm-hermitian", lambda: bool(_data.isherm(XH)), [fa], None, True, data=data)
                attempt("eigs", lambda: np.sort(_data.eigs(XH, True, False)), [fa], None, np.sort(np.linalg.eigvalsh(Hh)), tol=1e-9, data=data)
            if r <= 4 and c <= 4:
                attempt("svd", lambda: np.sort(_data.svd(XA, False)), [fa], None, np.sort(np.linalg.svd(A, compute_uv=False)), tol=1e-9, data=data)
            # conversions and containers
            for out in ("Dense", "CSR", "Dia"):
                attempt("to", lambda: _data.to(TYPES[out], XA), [fa], out, A, data=data)
                attempt("to-roundtrip-" + out, lambda: _data.to(type(XA), _data.to(TYPES[out], XA)), [fa], None, A, data=data)
            attempt("create-numpy", lambda: _data.create(XA.to_array()), [fa], None, A, data=data)
            if hasattr(XA, "as_scipy"):
                attempt("create-scipy", lambda: _data.create(XA.as_scipy().copy()), [fa], None, A, data=data)
                attempt("as_scipy", lambda: XA.as_scipy().toarray(), [fa], None, A, data=data)
            if hasattr(XA, "as_ndarray"):
                attempt("as_ndarray", lambda: np.array(XA.as_ndarray()), [fa], None, A, data=data)
            attempt("copy", lambda: XA.copy(), [fa], None, A, data=data)
            # binary operations
            same_type = {"dense_c": "dense_c", "dense_f": "dense_c", "csr": "csr", "csr_unsorted": "csr", "csr_view": "csr", "dia": "dia", "dia_messy": "dia", "dia_view": "dia"}[fa]
            for fb in (forms_sel if tier == "thorough" else list(dict.fromkeys([same_type] + list(rng.permutation(forms_sel)[:2])))):
                XB = build(B, fb, rng)
                XBt = build(Bt, fb, rng)
                for out in outs:
                    kw = {} if out is None else {"dtype": TYPES[out]}
                    attempt("add", lambda: _data.add(XA, XB, **kw), [fa, fb], out, A + B, data=data)
                    attempt("add-scale", lambda: _data.add(XA, XB, 2j, **kw), [fa, fb], out, A + 2j * B, data=data)
                    attempt("sub", lambda: _data.sub(XA, XB, **kw), [fa, fb], out, A - B, data=data)
                    attempt("multiply", lambda: _data.multiply(XA, XB, **kw), [fa, fb], out, A * B, data=data)
                    attempt("matmul", lambda: _data.matmul(XA, XBt, **kw), [fa, fb], out, A @ Bt, data=data)
                    attempt("matmul-scale", lambda: _data.matmul(XA, XBt, 1 - 1j, **kw), [fa, fb], out, (1 - 1j) * (A @ Bt), data=data)
                    attempt("matmul_dag", lambda: _data.matmul_dag(XA, XB, **kw), [fa, fb], out, A @ B.conj().T, data=data)
                    attempt("kron", lambda: _data.kron(XA, XBt, **kw), [fa, fb], out, np.kron(A, Bt), data=data)
                    attempt("kron_transpose", lambda: _data.kron_transpose(XA, XBt, **kw), [fa, fb], out, np.kron(A.T, Bt), data=data)
                    if c == 1:
                        attempt("matmul_outer", lambda: _data.matmul_outer(XA, build(B.conj().T, fb, rng), **kw), [fa, fb], out, A @ B.conj().T, data=data)
                        attempt("matmul_outer-scale", lambda: _data.matmul_outer(XA, build(B.conj().T, fb, rng), 2 - 1j, **kw), [fa, fb], out, (2 - 1j) * (A @ B.conj().T), data=data)
                attempt("isequal", lambda: bool(_data.isequal(XA, XB)), [fa, fb], None, bool(np.array_equal(A, B)), data=data)
                attempt("isequal-self", lambda: bool(_data.isequal(XA, build(A, fb, rng))), [fa, fb], None, True, data=data)
                # the tolerances of isequal mean |a - b| <= atol + rtol |b| entry by entry, in every storage: differences a few
                # per cent inside and outside that band, for small, unit and large entries
                if np.count_nonzero(A) and it < 8:
                    for atol_, rtol_ in ((1e-6, 1e-3), (1e-3, 1e-2), (1e-9, 1e-5)):
                        for mag in (0.05, 1.0, 40.0):
                            for frac in (0.93, 1.07):
                                Bm = A * (mag / max(np.abs(A).max(), 1e-300))
                                nzr = np.argwhere(Bm != 0)[0]
                                thr = atol_ + rtol_ * abs(Bm[tuple(nzr)])
                                Am = Bm.copy()
                                Am[tuple(nzr)] += frac * thr * (Bm[tuple(nzr)] / abs(Bm[tuple(nzr)]))
                                want_eq = bool(np.allclose(Am, Bm, rtol=rtol_, atol=atol_))
                                attempt("isequal-tolerance", lambda: bool(_data.isequal(build(Am, fa, rng), build(Bm, fb, rng), atol_, rtol_)), [fa, fb], None, want_eq, data=data)

                                # ... and the same when the tolerances are the ones of the settings (what `Qobj == Qobj` uses)
                                def _with_settings():
                                    with qutip.CoreOptions(atol=atol_, rtol=rtol_):
                                        return bool(_data.isequal(build(Am, fa, rng), build(Bm, fb, rng)))
                                attempt("isequal-settings-tolerance", _with_settings, [fa, fb], None, want_eq, data=data)
                if r == c == 1:
                    # 1x1: "ket", "bra" and "operator" coincide, so there is no single reference, but whatever meaning a routine
                    # picks it picks for every storage form: compared with the all-Dense call
                    A1, B1 = np.array([[2.0 - 1.0j]]), np.array([[1.0 + 1.0j]])
                    DA1, DB1 = _data.Dense(A1), _data.Dense(B1)
                    XA1, XB1 = build(A1, fa, rng), build(B1, fb, rng)
                    for nm1, f1 in (("expect", lambda o_, s_: _data.expect(o_, s_)), ("inner", lambda o_, s_: _data.inner(o_, s_)), ("inner_op", lambda o_, s_: _data.inner_op(s_, o_, s_))):
                        try:
                            want1 = complex(f1(DA1, DB1))
                        except Exception:       # noqa
                            continue
                        attempt(nm1 + "-1x1", lambda: f1(XA1, XB1), [fa, fb], None, want1, data=data)
                if c == 1 and r > 1:
                    attempt("inner", lambda: _data.inner(XA, XB), [fa, fb], None, np.vdot(A, B), data=data)
                    attempt("inner-braket", lambda: _data.inner(build(A.conj().T, fa, rng), XB), [fa, fb], None, np.vdot(A, B), data=data)
                if r == c and r > 1:
                    kets = pattern(rng, (r, 1), "full")
                    XK = build(kets, fb, rng)
                    attempt("expect-ket", lambda: _data.expect(XA, XK), [fa, fb], None, (kets.conj().T @ A @ kets)[0, 0], data=data)
                    attempt("expect-dm", lambda: _data.expect(XA, XB), [fa, fb], None, np.trace(A @ B), data=data)
                    attempt("inner_op", lambda: _data.inner_op(XK, XA, XK), [fb, fa], None, (kets.conj().T @ A @ kets)[0, 0], data=data)
                    if r in (4,):
                        vec = pattern(rng, (r * r, 1), "random")
                    if r == 4:
                        rho = pattern(rng, (2, 2), "full")
                        vrho = rho.reshape(-1, 1, order="F")
                        attempt("expect_super", lambda: _data.expect_super(XA, build(vrho, fb, rng)), [fa, fb], None, np.trace((A @ vrho).reshape(2, 2, order="F")), data=data)
                        attempt("trace_oper_ket", lambda: _data.trace_oper_ket(build(vrho, fb, rng)), [fb], None, np.trace(rho), data=data)
                    if abs(np.linalg.det(A)) > 0.5 and r <= 6:
                        attempt("inv", lambda: _data.inv(XA), [fa], None, np.linalg.inv(A), tol=1e-9, data=data)
                        rhs = pattern(rng, (r, 2), "full")
                        attempt("solve", lambda: _data.solve(XA, build(rhs, "dense_c", rng)), [fa], None, np.linalg.solve(A, rhs), tol=1e-9, data=data)
                # rectangular operator between two vectors of the matching lengths
                kl, kr = pattern(rng, (r, 1), "full"), pattern(rng, (c, 1), "full")
                if r > 1 and c > 1:
                    XL, XR = build(kl, fb, rng), build(kr, fb, rng)
                    attempt("inner_op-rect", lambda: _data.inner_op(XL, XA, XR), [fb, fa, fb], None, (kl.conj().T @ A @ kr)[0, 0], data=data)
                    attempt("inner_op-rect-bra", lambda: _data.inner_op(build(kl.conj().T, fb, rng), XA, XR), [fb, fa, fb], None, (kl.conj().T @ A @ kr)[0, 0], data=data)
                    qa = qutip.Qobj(A, dims=[[r], [c]])
                    attempt("Qobj.matrix_element", lambda: qa.to({"dense_c": "dense", "dense_f": "dense"}.get(fa, fa.split("_")[0])).matrix_element(
                        qutip.Qobj(kl).to(fb.split("_")[0] if not fb.startswith("dense") else "dense"), qutip.Qobj(kr).to(fb.split("_")[0] if not fb.startswith("dense") else "dense")),
                        [fb, fa, fb], None, (kl.conj().T @ A @ kr)[0, 0], data=data)
                # a result is a new object: updating it in place must not reach an operand
                Z = build(np.zeros_like(A), fb, rng)
                fresh = {"add-zero": lambda: _data.add(XA, Z), "add-scale0": lambda: _data.add(XA, XB, 0), "sub-zero": lambda: _data.sub(XA, Z), "add": lambda: _data.add(XA, XB),
                         "mul-one": lambda: _data.mul(XA, 1), "neg": lambda: _data.neg(XA), "transpose": lambda: _data.transpose(XA), "conj": lambda: _data.conj(XA),
                         "adjoint": lambda: _data.adjoint(XA), "copy": lambda: XA.copy(), "tidyup-copy": lambda: _data.tidyup(XA, 1e-14, False), "multiply": lambda: _data.multiply(XA, XB),
                         "reshape-same": lambda: _data.reshape(XA, r, c), "kron-one": lambda: _data.kron(XA, build(np.ones((1, 1), complex), fb, rng)),
                         "zero-add": lambda: _data.add(Z, XA), "pow-one": (lambda: _data.pow(XA, 1)) if r == c else None,
                         "matmul-identity": (lambda: _data.matmul(XA, build(np.eye(c, dtype=complex), fb, rng)))}
                for nm, fn in fresh.items():
                    if fn is None:
                        continue
                    try:
                        with warnings.catch_warnings():
                            warnings.simplefilter("ignore")
                            res = fn()
                            _data.imul(res, 3)
                            _data.tidyup(res, 100.0, True)
                    except Exception:       # noqa
                        rep.count("fresh-check-raises")
                        continue
                    rep.evaluations += 1
                    rep.count("fresh=" + nm)
                    if not (np.array_equal(XA.to_array(), A) and np.array_equal(XB.to_array(), B) and not Z.to_array().any()):
                        v(f"aliased-result:{nm}:{fa}", f"{nm} on operands stored as {[fa, fb]}: updating the result in place changed an operand", data)
                        break
                # `out` arguments of the dense-output products, in both memory orders
                for fo in (False, True):
                    for name_, prod, Rm in (("matmul-out", lambda o: _data.matmul(XA, build(Bt, "dense_f" if fo else "dense_c", rng), 1 + 1j, o), Bt),):
                        for oo in (False, True):
                            base_out = pattern(rng, (r, Rm.shape[1]), "full")
                            O = _data.Dense(np.asfortranarray(base_out) if oo else np.ascontiguousarray(base_out), copy=False)
                            attempt(name_, lambda: prod(O), [fa, "dense_f" if fo else "dense_c", "out_f" if oo else "out_c"], None, (1 + 1j) * (A @ Rm) + base_out, data=data)
                            # scale 1 (the kernels then accumulate straight into `out`), right operands with several columns
                            Bw = pattern(rng, (c, int(rng.integers(2, 5))), "full")
                            base_w = pattern(rng, (r, Bw.shape[1]), "full")
                            Ow = _data.Dense(np.asfortranarray(base_w) if oo else np.ascontiguousarray(base_w), copy=False)
                            Rw = _data.Dense(np.asfortranarray(Bw) if fo else np.ascontiguousarray(Bw), copy=False)
                            want_w = A @ Bw + base_w          # (the buffer of `out` may be base_w itself)
                            attempt("matmul-out-unit-scale", lambda: _data.matmul(XA, Rw, 1, Ow), [fa, "dense_f" if fo else "dense_c", "out_f" if oo else "out_c"], None, want_w, data=data)
                            if not np.array_equal(Ow.to_array(), want_w):
                                v(f"matmul-out-unit-scale:buffer:{fa}", f"matmul({fa}, dense, 1, out): the buffer handed in as `out` does not hold out + A B afterwards", data)
                            # dense @ (operand in its storage form) into `out`, and the adjoint product
                            if fb.startswith("dia") or fb.startswith("csr"):
                                base2 = pattern(rng, (Bt.shape[1], c), "full") if False else pattern(rng, (r, Bt.shape[1]), "full")
                                O2 = _data.Dense(np.asfortranarray(base2) if oo else np.ascontiguousarray(base2), copy=False)
                                DA = _data.Dense(np.asfortranarray(A) if fo else np.ascontiguousarray(A), copy=False)
                                attempt("matmul-out-dense-left", lambda: _data.matmul(DA, XBt, 2 - 1j, O2), ["dense_f" if fo else "dense_c", fb, "out_f" if oo else "out_c"], None, (2 - 1j) * (A @ Bt) + base2, data=data)
                    # A @ B+ accumulated into `out`, every combination of memory orders, B dense or CSR
                    for oo in (False, True):
                        mmod = importlib.import_module("qutip.core.data.matmul")
                        base3 = pattern(rng, (r, r), "full")
                        DA = _data.Dense(np.array(A, order="F" if fo else "C"), copy=False)
                        for rn, Rr, fn_ in (("csr", _data.to(_data.CSR, _data.Dense(A)), mmod.matmul_dag_dense_csr_dense), ("dense", _data.Dense(np.array(A, order="F" if oo else "C"), copy=False), mmod.matmul_dag_dense)):
                            O3 = _data.Dense(np.array(base3, order="F" if oo else "C"), copy=False)
                            attempt("matmul_dag-out:" + rn, lambda: fn_(DA, Rr, 1 - 2j, O3), ["dense_f" if fo else "dense_c", rn, "out_f" if oo else "out_c"], None, (1 - 2j) * (A @ A.conj().T) + base3, data=data)
                    # in-place scaled sum of dense matrices in every combination of memory orders
                    for oo in (False, True):
                        La = pattern(rng, (r, c), "full")
                        Ld = _data.Dense(np.asfortranarray(La) if oo else np.ascontiguousarray(La), copy=False)
                        Rd = _data.Dense(np.asfortranarray(B) if fo else np.ascontiguousarray(B), copy=False)
                        attempt("iadd_dense", lambda: importlib.import_module("qutip.core.data.add").iadd_dense(Ld, Rd, 3 - 2j),
                                ["out_f" if oo else "out_c", "dense_f" if fo else "dense_c"], None, La + (3 - 2j) * B, data=data)
                if c == 1 and r > 1:
                    longer = pattern(rng, (r + 2, 1), "full")
                    attempt("inner-bad-shape", lambda: _data.inner(XA, build(longer, fb, rng)), [fa, fb], None, None, data=data)
                    attempt("inner-bad-shape-bra", lambda: _data.inner(build(A.conj().T, fa, rng), build(longer, fb, rng)), [fa, fb], None, None, data=data)
                # shapes that do not fit must be rejected
                wrong = pattern(rng, (r + 1, c + 2), "random")
                XW = build(wrong, fb, rng)
                attempt("add-bad-shape", lambda: _data.add(XA, XW), [fa, fb], None, None, data=data)
                attempt("sub-bad-shape", lambda: _data.sub(XA, XW), [fa, fb], None, None, data=data)
                attempt("multiply-bad-shape", lambda: _data.multiply(XA, XW), [fa, fb], None, None, data=data)
                attempt("matmul-bad-shape", lambda: _data.matmul(XA, XW), [fa, fb], None, None, data=data)
                if r != c:
                    attempt("trace-bad-shape", lambda: _data.trace(XA), [fa], None, None, data=data)
                    attempt("expm-bad-shape", lambda: _data.expm(XA), [fa], None, None, data=data)
                    attempt("pow-bad-shape", lambda: _data.pow(XA, 2), [fa], None, None, data=data)
                attempt("reshape-bad-shape", lambda: _data.reshape(XA, r + 1, c), [fa], None, None, data=data)
    # ------------------------------------------------------------------ predicates and powers on rectangular operands in every storage form:
    # diagonal / one off-diagonal entry / zero matrices; integer powers exist for square operands only, whatever the exponent
    for shp in ((2, 5), (5, 2), (4, 3), (3, 4), (1, 4), (4, 1), (3, 3)):
        r_, c_ = shp
        mats = {"diagonal": np.zeros(shp, complex), "zero": np.zeros(shp, complex)}
        for k_ in range(min(shp)):
            mats["diagonal"][k_, k_] = complex(k_ + 1, -k_)
        for _ in range(3):
            M_ = mats["diagonal"].copy()
            i_, j_ = int(rng.integers(0, r_)), int(rng.integers(0, c_))
            if i_ != j_:
                M_[i_, j_] = 2 - 1j
                mats[f"off-diagonal entry at {i_},{j_}"] = M_
        for nm_, M_ in mats.items():
            for fa in FORMS:
                X_ = build(M_, fa, rng)
                isd = not (M_ * (1 - np.eye(r_, c_))).any()
                attempt("isdiag-rect", lambda: bool(_data.isdiag(X_)), [fa], None, isd, data={"shape": list(shp), "matrix": nm_})
                attempt("iszero-rect", lambda: bool(_data.iszero(X_)), [fa], None, not M_.any(), data={"shape": list(shp), "matrix": nm_})
                for n_ in (0, 1, 2):
                    for od in (None, "CSR", "Dia", "Dense"):
                        kw_ = {} if od is None else {"dtype": od}
                        attempt("pow-rect", lambda: _data.pow(X_, n_, **kw_), [fa], od, (np.linalg.matrix_power(M_, n_) if r_ == c_ else None), data={"shape": list(shp), "n": n_})
    # ------------------------------------------------------------------ reshape to every factorisation of the size, from every storage form
    for shp in ((3, 4), (4, 3), (6, 2), (7, 3), (5, 4), (2, 6), (1, 12)):
        Ar = pattern(rng, shp, str(rng.choice(["full", "random", "diagonals"])))
        tot = shp[0] * shp[1]
        for fa in FORMS:
            Xr = build(Ar, fa, rng)
            for r2 in [d_ for d_ in range(1, tot + 1) if tot % d_ == 0]:
                attempt("reshape-factors", lambda: _data.reshape(Xr, r2, tot // r2), [fa], None, Ar.reshape(r2, tot // r2), data={"shape": list(shp), "to": [r2, tot // r2], "A": str(Ar.tolist())})
            if not np.array_equal(Xr.to_array(), Ar):
                v(f"reshape-changes-operand:{fa}", f"reshape changed the matrix of its {fa} operand", {"shape": list(shp)})
    # ------------------------------------------------------------------ diagonal matrices, with stored zeros and messy storage
    for it in range(6 if tier == "quick" else 30):
        n = int(rng.integers(2, 7))
        dvals = rng.integers(-3, 4, n) / 4.0 + 1j * rng.integers(-3, 4, n) / 4.0
        Dg = np.diag(dvals)
        for form in FORMS:
            X = build(Dg, form, rng)
            attempt("expm-diagonal", lambda: _data.expm(X), [form], None, np.diag(np.exp(dvals)), tol=1e-12, data={"diag": str(dvals.tolist())})
            attempt("isdiag-diagonal", lambda: bool(_data.isdiag(X)), [form], None, True)
            attempt("pow-diagonal", lambda: _data.pow(X, 3), [form], None, np.diag(dvals ** 3), tol=1e-12)
    # ------------------------------------------------------------------ tensor permutations and partial traces of (very) sparse operators
    for it in range(10 if tier == "quick" else 60):
        dims = [[2, 3, 2], [2, 2, 2, 2], [3, 2], [2, 2, 3], [4, 3]][it % 5]
        n = int(np.prod(dims))
        A = np.zeros((n, n), complex)
        density = str(rng.choice(["very-sparse", "sparse", "dense"]))
        if density == "very-sparse":
            rows_used = rng.choice(n, size=max(1, n // 6), replace=False)
            for rr in rows_used:
                for cc in rng.choice(n, size=int(rng.integers(1, 4)), replace=False):
                    A[rr, cc] = complex(rng.integers(1, 5), rng.integers(-4, 5))
        else:
            A = gint(rng, (n, n), 0.1 if density == "sparse" else 0.8)
        rep.case({"permute": dims, "density": density}, np.count_nonzero(A) >= 2)
        order = [int(x) for x in rng.permutation(len(dims))]
        T = A.reshape(dims + dims).transpose(order + [len(dims) + o for o in order]).reshape(n, n)
        sel = sorted(int(x) for x in rng.choice(len(dims), size=int(rng.integers(1, len(dims))), replace=False))
        keep_axes = sel
        full = A.reshape(dims + dims)
        nd = len(dims)
        idx_in = list(range(nd))
        idx_out = [nd + k if k in sel else k for k in range(nd)]
        traced = np.einsum(full, idx_in + idx_out, [k for k in sel] + [nd + k for k in sel])
        dk = int(np.prod([dims[k] for k in sel]))
        traced = traced.reshape(dk, dk)
        data = {"dims": dims, "order": order, "sel": sel, "A": str(A.tolist())}
        for fa in FORMS:
            XA = build(A, fa, rng)
            for out in outs:
                kw = {} if out is None else {"dtype": TYPES[out]}
                attempt("permute.dimensions", lambda: _data.permute.dimensions(XA, dims, order, **kw), [fa], out, T, data=data)
                attempt("ptrace", lambda: _data.ptrace(XA, dims, sel, **kw), [fa], out, traced, data=data)
        q = qutip.Qobj(A, dims=[dims, dims])
        for fa in ("csr", "dense", "dia"):
            attempt("Qobj.permute", lambda: q.to(fa).permute(order).full(), [fa], None, T, data=data)
            attempt("Qobj.ptrace", lambda: q.to(fa).ptrace(sel).full(), [fa], None, traced, data=data)
    # dimensions whose product is not the size of the operand are refused, in every storage form (no silent garbage, no
    # reads outside the buffers)
    for shape_, dims_ in (((4, 4), [2, 2, 2]), ((6, 6), [2, 2]), ((4, 1), [2, 2, 2]), ((1, 4), [2, 2, 2]), ((6, 6), [3, 3])):
        Aw = np.zeros(shape_, dtype=complex)
        Aw[0, shape_[1] - 1] = 2.0
        if shape_[0] > 1:
            Aw[shape_[0] - 1, 0] = 1j
        for form in FORMS:
            rep.evaluations += 1
            rep.count("permute-wrong-size")
            try:
                Xw = build(Aw, form, rng)
                out_ = _data.permute.dimensions(Xw, dims_, list(range(len(dims_)))[::-1])
                v(f"permute-wrong-size:{form}", f"permute.dimensions of a {shape_[0]}x{shape_[1]} operand ({form}) with dimensions {dims_} (product {int(np.prod(dims_))}) returns a matrix of shape {out_.shape} instead of refusing", {"shape": list(shape_), "dims": dims_, "form": form})
            except (ValueError, TypeError):
                pass
            except Exception as e:
                v(f"permute-wrong-size:{form}", f"permute.dimensions of a {shape_[0]}x{shape_[1]} operand ({form}) with dimensions {dims_} (product {int(np.prod(dims_))}) fails with {type(e).__name__}: {e} instead of refusing the dimensions"[:300], {"shape": list(shape_), "dims": dims_, "form": form})
    # ------------------------------------------------------------------ in-place tidy-up, then further operations
    for it in range(12 if tier == "quick" else 80):
        n = int(rng.choice([4, 6]))
        A = pattern(rng, (n, n), "diagonals") + np.diag(np.full(n, 2.0 + 1j))
        # make one diagonal tiny so that tidy-up removes it, and keep others
        off = int(rng.integers(1, n - 1)) * int(rng.choice([-1, 1]))
        for j in range(n):
            i = j - off
            if 0 <= i < n:
                A[i, j] = 1e-12
        for form in ("dia", "dia_view", "dia_messy", "csr", "csr_view", "csr_unsorted", "dense_c", "dense_f"):
            X = build(A, form, rng)
            if hasattr(X, "as_scipy") and rng.random() < 0.7:
                X.as_scipy()
            try:
                with warnings.catch_warnings():
                    warnings.simplefilter("ignore")
                    Y = _data.tidyup(X, 1e-8, True)
            except Exception as e:
                v("tidyup-inplace:raises", f"in-place tidyup of a {form} raises {type(e).__name__}: {e}"[:200])
                continue
            want = np.where(np.abs(A) < 1e-8, 0, A)
            seq = {"to_array": lambda: Y.to_array(), "as_scipy": lambda: Y.as_scipy().toarray() if hasattr(Y, "as_scipy") else Y.to_array(),
                   "expm": lambda: _data.expm(_data.mul(Y, 0.125)), "reshape": lambda: _data.reshape(Y, n * n, 1), "matmul": lambda: _data.matmul(Y, Y),
                   "add": lambda: _data.add(Y, Y), "kron": lambda: _data.kron(Y, Y), "transpose": lambda: _data.transpose(Y), "to-dense": lambda: _data.to(_data.Dense, Y),
                   "to-csr": lambda: _data.to(_data.CSR, Y), "ptrace": lambda: _data.ptrace(Y, [2, n // 2], [0]), "copy": lambda: Y.copy(), "extract": lambda: _data.extract(Y),
                   "trace": lambda: _data.trace(Y), "column_stack": lambda: _data.column_stack(Y.copy()),
                   "expm-direct": lambda: _data.expm(Y), "scipy-sum": lambda: complex(Y.as_scipy().sum()) if hasattr(Y, "as_scipy") else complex(Y.to_array().sum()),
                   "scipy-coo": lambda: Y.as_scipy().tocoo().toarray() if hasattr(Y, "as_scipy") else Y.to_array()}
            refs = {"to_array": want, "as_scipy": want, "expm": sla.expm(0.125 * want), "reshape": want.reshape(n * n, 1), "matmul": want @ want, "add": 2 * want, "kron": np.kron(want, want),
                    "transpose": want.T, "to-dense": want, "to-csr": want, "ptrace": np.einsum("ajbj->ab", want.reshape(2, n // 2, 2, n // 2)), "copy": want, "extract": want,
                    "trace": np.trace(want), "column_stack": want.reshape(-1, 1, order="F"), "expm-direct": sla.expm(want), "scipy-sum": complex(want.sum()), "scipy-coo": want}
            for name, fn in seq.items():
                attempt("after-inplace-tidyup:" + name, fn, [form], None, refs[name], tol=1e-9, data={"form": form, "A": str(A.tolist()), "removed_offset": off})
    # ... and on diagonal matrices (the exponential has a route of its own for them)
    for it in range(4 if tier == "quick" else 20):
        n = int(rng.integers(2, 6))
        dv = rng.integers(1, 4, n).astype(complex)
        dv[int(rng.integers(0, n))] = 1e-13
        A = np.diag(dv)
        for form in ("csr", "csr_view", "dia", "dia_view", "dense_c"):
            X = build(A, form, rng)
            if hasattr(X, "as_scipy"):
                X.as_scipy()
            with warnings.catch_warnings():
                warnings.simplefilter("ignore")
                Y = _data.tidyup(X, 1e-8, True)
            want = np.where(np.abs(A) < 1e-8, 0, A)
            attempt("after-inplace-tidyup:expm-diagonal", lambda: _data.expm(Y), [form], None, sla.expm(want), tol=1e-9, data={"form": form, "diagonal": [str(x) for x in dv]})
            attempt("after-inplace-tidyup:Qobj.expm-diagonal", lambda: qutip.Qobj(Y).expm().full(), [form], None, sla.expm(want), tol=1e-9, data={"form": form, "diagonal": [str(x) for x in dv]})
    for sig, (what, data) in viol.items():
        rep.violation(core.Violation("C01:" + sig, what, data))
    if (ndis or not proved) and not rep.violations:
        rep.violation(core.Violation("C01:unverified", "model/proof no longer matches the code and no failing input was found",
                                     {"broken": rep.broken}, failing_input_found=False))
    return rep.finish()


if __name__ == "__main__":
    core.main(run, PID)
