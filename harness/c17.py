"""C17 — diffusive stochastic trajectories are determined by their noise record.

Correspondence (exact rationals on the floats used): `wiener_process`, the reported increments and the
"start" measurement record of real replays with scripted dyadic noise against the Lean model
(cumsum / measStart / replayMeas); `Wiener.dW` chunked against `coarsen`.
Oracle on the real solvers (all schemes x sse/sme x homodyne/heterodyne x one/two monitored channels):
replay from recorded increments reproduces the trajectory; replay from the recorded "start" measurement
does too (or is refused with NotImplementedError, never silently different); the caller's record is not
changed; the solver is unchanged by a replay (same seed, same trajectory afterwards); reporting more
often does not change the trajectory (time-dependent systems); measurement = <M> + factor dW/dt for the
three conventions; trace one and Hermitian at every stored time; on refinement of one Brownian path all
schemes approach one limit, the same for the wave-function and density-matrix equations.
"""
import json
import os
import sys
import warnings
from fractions import Fraction

import numpy as np

sys.path.insert(0, os.path.dirname(os.path.abspath(__file__)))
import core

PID = "C17"


def fr(x):
    f = Fraction(float(x))
    return str(f.numerator) if f.denominator == 1 else f"{f.numerator}/{f.denominator}"


def f_t(t, w=1.0):
    return np.cos(w * t)


def maxdiff(a, b):
    return max(np.abs(x.full() - y.full()).max() for x, y in zip(a, b))


def run(tier, seed, replay):
    rep = core.Report(PID, tier, seed)
    rep.rule = ("schemes: every registered SSE / SME integrator x homodyne / heterodyne x 1-2 monitored channels x constant / time-dependent systems; "
                "replays with dt equal to the spacing of the record; refinement study over 4-5 levels of one Brownian path; non-trivial = every configuration")
    rep.assumptions = ["replay is exact only when the stepper's dt equals the spacing of the recorded tlist (one summed increment is stored per output interval)",
                       "replay from a measurement record inverts the 'start' convention only ('end' and 'middle' mix in the state after the step)",
                       "for wave-function trajectories the norm is kept to the order of the scheme only; trace one is checked for the density-matrix equation",
                       "common limit: distance between schemes at the finest level of one Brownian path below 0.08, and decreasing with the level (measured slopes are in the evidence, not claimed)"]
    core.build_repo()
    proved = core.prove(rep, ["Qv.Model.C17", "Qv.Props.C17"], "Qv.Props.C17")
    if tier == "thorough":
        core.leanchecker(rep, ["Qv.Props.C17"])
    import qutip
    from qutip.solver.sode._noise import Wiener
    rng = np.random.default_rng(seed)
    viol = {}

    def v(sig, what, data=None):
        if sig not in viol:
            viol[sig] = (what, data or {"what": what})

    sz, sx, sm = qutip.sigmaz(), qutip.sigmax(), qutip.sigmam()
    psi0 = (qutip.basis(2, 0) + 0.5j * qutip.basis(2, 1)).unit()
    rho0 = qutip.ket2dm(psi0)

    def make(which, method, het, nsc, td, dt, meas="start", keep=True):
        H = 0.5 * sz + 0.3 * sx
        if td:
            H = qutip.QobjEvo([0.5 * sz, [0.3 * sx, f_t]], args={"w": 3.0})
        sc = [0.6 * sm, 0.25 * sz][:nsc]
        if td:
            sc = [qutip.QobjEvo([0.6 * sm, f_t], args={"w": 2.0})] + sc[1:]
        o = {"method": method, "dt": dt, "store_states": True, "store_measurement": meas, "progress_bar": "", "keep_runs_results": keep}
        if which == "sme":
            return qutip.SMESolver(H, sc_ops=sc, heterodyne=het, c_ops=[0.2 * sx], options=o), rho0, sc
        return qutip.SSESolver(H, sc_ops=sc, heterodyne=het, options=o), psi0, sc

    sme_methods = list(qutip.SMESolver.avail_integrators())
    sse_methods = list(qutip.SSESolver.avail_integrators())
    tl = np.linspace(0, 0.5, 6)
    lines, expect = [], []
    # ------------------------------------------------------------------ scripted dyadic noise: exact bookkeeping
    for which, methods in (("sme", sme_methods), ("sse", sse_methods)):
        for method in methods:
            for het in (False, True):
                for nsc in (1, 2):
                    cfg = {"eq": which, "method": method, "heterodyne": het, "n_sc": nsc}
                    rep.case(cfg, True)
                    rep.count(f"{which}/{method}")
                    try:
                        with warnings.catch_warnings():
                            warnings.simplefilter("ignore")
                            s, st, sc = make(which, method, het, nsc, False, 0.1)
                            shape = (nsc, 2, len(tl) - 1) if het else (nsc, len(tl) - 1)
                            dW = rng.integers(-40, 41, shape) / 128.0
                            snap = dW.copy()
                            with core.time_limit(120):
                                r = s.run_from_experiment(st, tl, dW)
                                r_again = s.run_from_experiment(st, tl, dW)
                    except core.CaseTimeout:
                        raise
                    except NotImplementedError:
                        rep.count("replay-dW-refused:" + method)
                        continue
                    except Exception as e:
                        v(f"replay-dW-raises:{which}:{method}", f"run_from_experiment with Wiener increments raises for {cfg}: {type(e).__name__}: {e}"[:240], cfg)
                        continue
                    rep.evaluations += 1
                    if not np.array_equal(dW, snap):
                        v(f"record-changed:dW:{method}", f"run_from_experiment changed the increments it was given ({cfg})", cfg)
                    if maxdiff(r.states, r_again.states) > 0:
                        v(f"replay-twice:{method}", f"two replays of the same increments differ ({cfg})", cfg)
                    got = np.asarray(r.dW)
                    if got.shape != dW.shape or np.abs(got - dW).max() > 1e-15:
                        v(f"reported-dW:{which}:{method}", f"the increments reported by a replay are not the increments given ({cfg}): max diff {np.abs(got - dW).max() if got.shape == dW.shape else got.shape}", cfg)
                    W = np.asarray(r.wiener_process)
                    flat_in = dW.reshape(-1, dW.shape[-1])
                    flat_W = W.reshape(-1, W.shape[-1])
                    for row_in, row_W in zip(flat_in, flat_W):
                        lines.append("C17.wiener " + json.dumps({"dW": [fr(x) for x in row_in]}))
                        expect.append(("wiener", [float(x) for x in row_W], cfg))
                    # measurement identity ("start": expectation in the state at the start of the interval)
                    if r.measurement is not None:
                        M = np.asarray(r.measurement)
                        for i, c in enumerate(sc):
                            cq = c if isinstance(c, qutip.Qobj) else c(0)
                            quads = [cq + cq.dag()] if not het else [cq + cq.dag(), -1j * (cq - cq.dag())]
                            for qi, mop in enumerate(quads):
                                e_start = [float(np.real(qutip.expect(mop, stt))) for stt in r.states[:-1]]
                                row_dw = dW[i][qi] if het else dW[i]
                                row_m = M[i][qi] if het else M[i]
                                fac = np.sqrt(2.0) if het else 1.0
                                want = np.array(e_start) + fac * row_dw / 0.1
                                if np.abs(want - row_m).max() > 1e-9:
                                    v(f"measurement-identity:{which}:{method}:{'het' if het else 'hom'}", f"measurement != <M> + dW/dt at the start of the step ({cfg}): max diff {np.abs(want - row_m).max():.2e}", cfg)
                                if not het:
                                    lines.append("C17.meas " + json.dumps({"e": [fr(x) for x in e_start] + ["0"], "dW": [fr(x) for x in row_dw], "dt": fr(0.1)}))
                                    expect.append(("meas", [float(x) for x in row_m], [float(x) for x in row_dw], cfg))
                    # trace / Hermiticity
                    if which == "sme":
                        for k, stt in enumerate(r.states):
                            A = stt.full()
                            if abs(np.trace(A) - 1) > 1e-8 or np.abs(A - A.conj().T).max() > 1e-10:
                                v(f"trace-hermiticity:{method}", f"state {k} of a {method} replay: trace {np.trace(A)}, anti-Hermitian part {np.abs(A - A.conj().T).max():.1e} ({cfg})", cfg)
                                break
    # Wiener chunking
    for _ in range(10 if tier == "quick" else 60):
        nsc, n, K = int(rng.integers(1, 3)), int(rng.integers(1, 6)), int(rng.integers(1, 6))
        dtf = float(rng.choice([1 / 64, 1 / 100, 0.013]))
        sd = int(rng.integers(1 << 30))
        W1 = Wiener(0.0, dtf, np.random.default_rng(sd), (1, nsc))
        fine = np.array(W1.dW(0.0, n * K))[:, 0, :]
        W2 = Wiener(0.0, dtf, np.random.default_rng(sd), (1, nsc))
        coarse = np.array([np.array(W2.dW(k * n * dtf, n))[:, 0, :].sum(axis=0) for k in range(K)])
        for ch in range(nsc):
            lines.append("C17.coarsen " + json.dumps({"dW": [fr(x) for x in fine[:, ch]], "n": n}))
            expect.append(("coarsen", [float(x) for x in coarse[:, ch]], {"n": n, "K": K, "dt": dtf}))
        rep.count("wiener-chunks")
    # the Wiener object handed to feedback coefficients, driven directly: histories of queries (later, equal and earlier
    # times, repeated), interleaved with the increments the integrator draws, against Qv.C17.runCalls
    from qutip.solver.sode._noise import Wiener as _Wiener

    class _TableGen:
        """stands for the random generator: hands out the rows of a table of dyadic numbers, in order"""
        def __init__(self, table):
            self.table, self.k = table, 0

        def normal(self, loc, scale, size):
            out = np.full(size, 7.0)
            for r in range(size[0]):
                out[r, 0, :] = self.table[self.k + r]
            self.k += size[0]
            return out
    for _ in range(30 if tier == "quick" else 300):
        nproc, ndw = int(rng.integers(1, 3)), int(rng.integers(1, 3))
        table = rng.integers(-40, 41, (64, nproc)) / 8.0
        wobj = _Wiener(0.0, 0.25, _TableGen(table), (ndw, nproc))
        kind = str(rng.choice(["increasing", "any", "repeats"]))
        ncall = int(rng.integers(1, 13))
        calls = [int(x) for x in rng.integers(0, 21, ncall)]
        if kind == "increasing":
            calls = sorted(calls)
        elif kind == "repeats":
            calls = [c for c in calls[: max(1, ncall // 2)] for _ in range(2)]
        outs = []
        for c in calls:
            if rng.random() < 0.4:
                wobj.dW(0.25 * int(rng.integers(0, 21)), int(rng.integers(1, 4)))      # the integrator drawing increments in between
            outs.append(np.array(wobj(0.25 * c), dtype=float).copy())
        rep.count("wiener-object-history:" + kind)
        rep.case({"wiener_calls": calls}, len(set(calls)) >= 2)
        for j in range(nproc):
            lines.append("C17.wiener_calls " + json.dumps({"dW": [fr(x) for x in table[:, j]], "calls": calls}))
            expect.append(("wiener", [float(o[j]) for o in outs], {"calls": calls, "process": j, "kind": kind}))
    model = core.run_driver(lines)
    ndis, first = 0, None
    for line, ex, m in zip(lines, expect, model):
        bad = None
        if isinstance(m, dict) and "error" in m:
            bad = {"model": m}
        elif ex[0] in ("wiener", "coarsen"):
            want = [float(Fraction(x)) for x in m]
            if len(want) != len(ex[1]) or max(abs(a - b) for a, b in zip(want, ex[1])) > 1e-12:
                bad = {"model": want, "impl": ex[1], "cfg": ex[-1]}
        else:
            want = [float(Fraction(x)) for x in m["measurement"]]
            rec = [float(Fraction(x)) for x in m["recovered"]]
            if max(abs(a - b) for a, b in zip(want, ex[1])) > 1e-9 or max(abs(a - b) for a, b in zip(rec, ex[2])) > 1e-12:
                bad = {"model": want, "impl": ex[1], "cfg": ex[-1]}
        if bad:
            ndis += 1
            if first is None:
                first = dict(bad, op=line.split(" ", 1)[0])
    rep.notes["correspondence_disagreements"] = ndis
    rep.notes["correspondence_lines"] = len(lines)
    if ndis:
        rep.broken.append({"kind": "correspondence", "count": ndis, "first": first})
    # ------------------------------------------------------------------ generated noise: replay, measurement replay, solver unchanged
    for which, methods in (("sme", sme_methods), ("sse", sse_methods)):
        for method in methods:
            for het in (False, True):
                for td in (False, True):
                    nsc = 1 if (td or rng.random() < 0.5) else 2
                    cfg = {"eq": which, "method": method, "heterodyne": het, "n_sc": nsc, "time_dependent": td}
                    try:
                        with warnings.catch_warnings():
                            warnings.simplefilter("ignore")
                            with core.time_limit(240):
                                s, st, sc = make(which, method, het, nsc, td, 0.1)
                                r = s.run(st, tl, ntraj=2, seeds=[11, 12])
                                rec_dW = np.array(r.dW[0], copy=True)
                                rec_m = np.array(r.measurement[0], copy=True)
                                snap_dW, snap_m = rec_dW.copy(), rec_m.copy()
                                try:
                                    r2 = s.run_from_experiment(st, tl, rec_dW)
                                except NotImplementedError:
                                    rep.count("replay-dW-refused:" + method)
                                    continue
                                d = maxdiff(r.runs_states[0], r2.states)
                                if d > 1e-10:
                                    v(f"replay-dW:{which}:{method}", f"re-running from the recorded increments does not reproduce the trajectory ({cfg}): {d:.2e}", cfg)
                                if not np.array_equal(rec_dW, snap_dW):
                                    v(f"record-changed:dW:{method}", f"run_from_experiment changed the increments it was given ({cfg})", cfg)
                                rep.evaluations += 1
                                rep.count("replay-dW")
                                try:
                                    r3 = s.run_from_experiment(st, tl, rec_m, measurement=True)
                                    r3b = s.run_from_experiment(st, tl, rec_m, measurement=True)
                                    d = maxdiff(r.runs_states[0], r3.states)
                                    rep.count("replay-measurement")
                                    if d > 1e-9:
                                        v(f"replay-measurement:{which}:{method}", f"re-running from the recorded measurement does not reproduce the trajectory ({cfg}): {d:.2e}", cfg)
                                    if not np.array_equal(rec_m, snap_m):
                                        v(f"record-changed:measurement:{method}", f"run_from_experiment(measurement=True) changed the record it was given ({cfg})", cfg)
                                    if maxdiff(r3.states, r3b.states) > 0:
                                        v(f"replay-twice:measurement:{method}", f"two replays of the same measurement record differ ({cfg})", cfg)
                                    if np.abs(np.asarray(r3.dW) - rec_dW).max() > 1e-9:
                                        v(f"recovered-dW:{which}:{method}", f"the increments reported by a measurement replay are not the recorded increments ({cfg}): {np.abs(np.asarray(r3.dW) - rec_dW).max():.2e}", cfg)
                                except NotImplementedError:
                                    rep.count("replay-measurement-refused")
                                # the solver is what it was: same seed, same trajectory
                                r4 = s.run(st, tl, ntraj=2, seeds=[11, 12])
                                d = max(maxdiff(r.runs_states[k], r4.runs_states[k]) for k in range(2))
                                if d > 1e-12:
                                    v(f"solver-changed-by-replay:{method}", f"after run_from_experiment the same seed gives a different trajectory ({cfg}): {d:.2e}", cfg)
                                # ... also when the solver's own step is finer than the spacing of the record
                                sF, stF, _ = make(which, method, het, nsc, td, 0.025)
                                rF = sF.run(stF, tl, ntraj=1, seeds=[13])
                                try:
                                    sF.run_from_experiment(stF, tl, rec_dW)
                                except NotImplementedError:
                                    pass
                                rF2 = sF.run(stF, tl, ntraj=1, seeds=[13])
                                d = maxdiff(rF.runs_states[0], rF2.runs_states[0])
                                if d > 1e-12:
                                    v(f"solver-changed-by-replay:{method}", f"after run_from_experiment (record spacing 0.1, solver dt 0.025) the same seed gives a different trajectory ({cfg}): {d:.2e}", cfg)
                                # the other conventions: identity with the state at the end / the mean
                                for conv in ("end", "middle"):
                                    s2, st2, sc2 = make(which, method, het, nsc, False, 0.1, meas=conv)
                                    rr = s2.run(st2, tl, ntraj=1, seeds=[11])
                                    M = np.asarray(rr.measurement[0])
                                    dWr = np.asarray(rr.dW[0])
                                    states = rr.runs_states[0]
                                    cq = sc2[0] if isinstance(sc2[0], qutip.Qobj) else sc2[0](0)
                                    mop = cq + cq.dag()
                                    e = np.array([float(np.real(qutip.expect(mop, x))) for x in states])
                                    ee = e[1:] if conv == "end" else 0.5 * (e[1:] + e[:-1])
                                    row_m = M[0][0] if het else M[0]
                                    row_dw = dWr[0][0] if het else dWr[0]
                                    fac = np.sqrt(2.0) if het else 1.0
                                    if np.abs(ee + fac * row_dw / 0.1 - row_m).max() > 1e-9:
                                        v(f"measurement-identity-{conv}:{which}:{method}", f"store_measurement='{conv}': measurement != <M> + dW/dt ({cfg}): {np.abs(ee + fac * row_dw / 0.1 - row_m).max():.2e}", cfg)
                    except core.CaseTimeout:
                        raise
                    except Exception as e:
                        v(f"raises:{which}:{method}", f"{cfg}: {type(e).__name__}: {e}"[:240], cfg)
                        continue
    # ------------------------------------------------------------------ arguments given at the call: a solver built with other arguments and
    # never used before, run / replayed with args=, gives the trajectory (and the measurement record) of a solver built with
    # those arguments
    def make_args(which, method, het, nsc, w):
        H = qutip.QobjEvo([0.5 * sz, [0.3 * sx, f_t]], args={"w": w})
        sc = [qutip.QobjEvo([0.6 * sm, f_t], args={"w": w}), 0.25 * sz][:nsc]
        o = {"method": method, "dt": 0.1, "store_states": True, "store_measurement": "start", "progress_bar": "", "keep_runs_results": True}
        if which == "sme":
            return qutip.SMESolver(H, sc_ops=sc, heterodyne=het, c_ops=[0.2 * sx], options=o), rho0
        return qutip.SSESolver(H, sc_ops=sc, heterodyne=het, options=o), psi0
    for which, methods in (("sme", sme_methods), ("sse", sse_methods)):
        for method in methods:
            for het, nsc in ((False, 1), (True, 2)):
                cfg = {"eq": which, "method": method, "heterodyne": het, "n_sc": nsc, "args": {"w": 1.4}}
                try:
                    with warnings.catch_warnings():
                        warnings.simplefilter("ignore")
                        with core.time_limit(240):
                            sd = int(rng.integers(1 << 30))
                            sA, st = make_args(which, method, het, nsc, 3.0)
                            rA = sA.run(st, tl, ntraj=1, seeds=sd, args={"w": 1.4})
                            sB, _ = make_args(which, method, het, nsc, 1.4)
                            rB = sB.run(st, tl, ntraj=1, seeds=sd)
                            dWr = np.asarray(rB.dW[0])
                            sC, _ = make_args(which, method, het, nsc, 3.0)
                            try:
                                rC = sC.run_from_experiment(st, tl, dWr, args={"w": 1.4})
                            except NotImplementedError:
                                rC = None
                except core.CaseTimeout:
                    raise
                except Exception as e:
                    v(f"call-args-raises:{which}:{method}", f"run(args=) / run_from_experiment(args=) raises for {cfg}: {type(e).__name__}: {e}"[:240], cfg)
                    continue
                rep.evaluations += 1
                rep.count("call-time-args")
                d1 = maxdiff(rA.runs_states[0], rB.runs_states[0])
                if d1 > 1e-10:
                    v(f"call-args:run:{which}:{method}", f"run(args=...) on a solver built with other arguments differs from a solver built with these arguments, same seed ({cfg}): {d1:.2e}", cfg)
                dm_ = np.abs(np.asarray(rA.measurement[0]) - np.asarray(rB.measurement[0])).max()
                if dm_ > 1e-9:
                    v(f"call-args:measurement:{which}:{method}", f"the measurement record of run(args=...) differs from that of a solver built with these arguments, same seed and states ({cfg}): {dm_:.2e}", cfg)
                if rC is not None:
                    d2 = maxdiff(rC.states, rB.runs_states[0])
                    if d2 > 1e-10:
                        v(f"call-args:replay:{which}:{method}", f"run_from_experiment(args=...) on a solver built with other arguments does not reproduce the trajectory of a solver built with these arguments ({cfg}): {d2:.2e}", cfg)
    # ------------------------------------------------------------------ the Wiener process handed to a feedback coefficient is the running sum of the
    # increments of the trajectory (0 at the start), however often and in whatever order the coefficient asks for it
    for which, methods in (("sme", sme_methods), ("sse", sse_methods)):
        for method in methods:
            seen = {}

            def fb(t, W, seen=seen):
                k = int(round(t / 0.1))
                if abs(t - 0.1 * k) < 1e-9:
                    first = float(W(t)[0])
                    again = float(W(t)[0])
                    seen.setdefault(k, []).extend([first, again])
                return 1.0
            cfg = {"eq": which, "method": method}
            try:
                with warnings.catch_warnings():
                    warnings.simplefilter("ignore")
                    with core.time_limit(240):
                        cls = qutip.SMESolver if which == "sme" else qutip.SSESolver
                        Hfb = qutip.QobjEvo([0.5 * sz, [0.3 * sx, fb]], args={"W": cls.WienerFeedback()})
                        o = {"method": method, "dt": 0.1, "store_states": True, "progress_bar": "", "keep_runs_results": True}
                        sf = cls(Hfb, sc_ops=[0.6 * sm], heterodyne=False, options=o)
                        rf = sf.run(rho0 if which == "sme" else psi0, tl, ntraj=1, seeds=int(rng.integers(1 << 30)))
            except core.CaseTimeout:
                raise
            except Exception as e:
                v(f"feedback-raises:{which}:{method}", f"Wiener feedback raises for {cfg}: {type(e).__name__}: {e}"[:240], cfg)
                continue
            rep.evaluations += 1
            rep.count("wiener-feedback")
            Wrep = np.asarray(rf.wiener_process[0]).reshape(-1)
            Wsum = np.concatenate([[0.0], np.cumsum(np.asarray(rf.dW[0]).reshape(-1))])
            for k in sorted(seen):
                if k < len(Wsum):
                    vals = np.array(seen[k])
                    if np.abs(vals - Wsum[k]).max() > 1e-12 or abs(Wrep[k] - Wsum[k]) > 1e-12:
                        v(f"feedback-wiener:{which}:{method}", f"the Wiener process seen by a feedback coefficient at t={0.1 * k:.1f} is {sorted(set(np.round(vals, 6).tolist()))}, the sum of the reported increments up to that time is {Wsum[k]:.6f} ({cfg})", cfg)
                        break
    # ------------------------------------------------------------------ an output interval shorter than half a step is skipped (documented, with a warning):
    # the records keep one entry per monitored operator for it, the increment is zero and the state is unchanged
    for which, methods in (("sme", sme_methods), ("sse", sse_methods)):
        for method in methods:
            for het in (False, True):
                cfg = {"eq": which, "method": method, "heterodyne": het, "n_sc": 2, "tlist": [0, 0.004, 0.1, 0.2]}
                try:
                    with warnings.catch_warnings():
                        warnings.simplefilter("ignore")
                        with core.time_limit(240):
                            sk, st, _ = make(which, method, het, 2, False, 0.1)
                            rk = sk.run(st, [0, 0.004, 0.1, 0.2], ntraj=1, seeds=int(rng.integers(1 << 30)))
                            dWk = np.asarray(rk.dW[0])
                            Mk = np.asarray(rk.measurement[0])
                except core.CaseTimeout:
                    raise
                except Exception as e:
                    v(f"skipped-step-raises:{which}:{method}", f"a run whose first output interval is shorter than half a step raises for {cfg}: {type(e).__name__}: {e}"[:240], cfg)
                    continue
                rep.evaluations += 1
                rep.count("skipped-step")
                want_shape = (2, 2, 3) if het else (2, 3)
                if dWk.shape != want_shape or Mk.shape != want_shape:
                    v(f"skipped-step-shape:{which}:{method}", f"records of a run with a skipped interval have shapes {dWk.shape} / {Mk.shape}, expected {want_shape} ({cfg})", cfg)
                elif np.abs(dWk[..., 0]).max() != 0 or maxdiff([rk.runs_states[0][1]], [rk.runs_states[0][0]]) > 0:
                    v(f"skipped-step-record:{which}:{method}", f"a skipped interval reports a non-zero increment or a changed state ({cfg})", cfg)
    # ------------------------------------------------------------------ unevenly spaced output times: the reported records stay consistent
    uneven = np.array([0.0, 0.1, 0.15, 0.4, 0.5, 0.8])
    for which, methods in (("sme", sme_methods), ("sse", sse_methods)):
        for method in methods:
            for het in (False, True):
                for conv in ("start", "end", "middle"):
                    if tier == "quick" and rng.random() < 0.5:
                        continue
                    cfg = {"eq": which, "method": method, "heterodyne": het, "convention": conv, "tlist": "uneven"}
                    try:
                        with warnings.catch_warnings():
                            warnings.simplefilter("ignore")
                            with core.time_limit(240):
                                s, st, sc = make(which, method, het, 2, False, 0.05, meas=conv)
                                r = s.run(st, uneven, ntraj=1, seeds=[31])
                    except core.CaseTimeout:
                        raise
                    except Exception as e:
                        v(f"raises:{which}:{method}", f"{cfg}: {type(e).__name__}: {e}"[:240], cfg)
                        continue
                    rep.evaluations += 1
                    rep.count("uneven-tlist")
                    dWr = np.asarray(r.dW[0])
                    Wr = np.asarray(r.wiener_process[0])
                    M = np.asarray(r.measurement[0])
                    states = r.runs_states[0]
                    flat_dw = dWr.reshape(-1, dWr.shape[-1])
                    flat_W = Wr.reshape(-1, Wr.shape[-1])
                    if np.abs(np.cumsum(flat_dw, axis=1) - flat_W[:, 1:]).max() > 1e-12 or np.abs(flat_W[:, 0]).max() > 0:
                        v(f"wiener-cumsum:{which}:{method}", f"wiener_process is not the running sum of the increments on an uneven tlist ({cfg})", cfg)
                    dts = np.diff(uneven)
                    fac = np.sqrt(2.0) if het else 1.0
                    for i, c in enumerate(sc):
                        cq = c if isinstance(c, qutip.Qobj) else c(0)
                        quads = [cq + cq.dag()] if not het else [cq + cq.dag(), -1j * (cq - cq.dag())]
                        for qi, mop in enumerate(quads):
                            e = np.array([float(np.real(qutip.expect(mop, x))) for x in states])
                            ee = e[:-1] if conv == "start" else (e[1:] if conv == "end" else 0.5 * (e[1:] + e[:-1]))
                            row_m = M[i][qi] if het else M[i]
                            row_dw = dWr[i][qi] if het else dWr[i]
                            if np.abs(ee + fac * row_dw / dts - row_m).max() > 1e-9:
                                v(f"measurement-identity-uneven:{which}:{method}", f"uneven tlist, store_measurement='{conv}': measurement != <M> + dW/dt per interval ({cfg}): {np.abs(ee + fac * row_dw / dts - row_m).max():.2e}", cfg)
    # ------------------------------------------------------------------ the step interface reports the increments it used, per operator and quadrature:
    # they are those of run() for the same seed, and a replay from them reproduces the stepped trajectory
    for which, methods in (("sme", sme_methods), ("sse", sse_methods)):
        for method in (methods if tier == "thorough" else methods[:3]):
            for het, nsc in ((False, 1), (False, 2), (True, 1), (True, 2)):
                cfg = {"eq": which, "method": method, "heterodyne": het, "n_sc": nsc, "interface": "start/step"}
                try:
                    with warnings.catch_warnings():
                        warnings.simplefilter("ignore")
                        with core.time_limit(240):
                            s, st, sc = make(which, method, het, nsc, False, 0.1)
                            rrun = s.run(st, tl, ntraj=1, seeds=77)
                            s.start(st, tl[0], seed=77)
                            got = [s.step(t, wiener_increment=True) for t in tl[1:]]
                            s2, _, _ = make(which, method, het, nsc, False, 0.1)
                            rec = np.stack([np.asarray(g[1]) for g in got], axis=-1)
                            try:
                                rrep = s2.run_from_experiment(st, tl, rec)
                            except NotImplementedError:      # schemes that need more than the increments refuse a replay
                                rrep = None
                except core.CaseTimeout:
                    raise
                except Exception as e:
                    v(f"raises:{which}:{method}", f"{cfg}: {type(e).__name__}: {e}"[:240], cfg)
                    continue
                rep.evaluations += 1
                rep.count("step-increments")
                want_dw = np.asarray(rrun.dW[0])
                if rec.shape != want_dw.shape:
                    v(f"step-increments-shape:{which}", f"increments returned by step(wiener_increment=True) stack to shape {rec.shape}, run() reports {want_dw.shape} ({cfg})", cfg)
                    continue
                d_inc = float(np.abs(rec - want_dw).max())
                d_st = max(float((a[0] - b).norm()) for a, b in zip(got, rrun.runs_states[0][1:]))
                d_rep = max(float((a[0] - b).norm()) for a, b in zip(got, rrep.states[1:])) if rrep is not None else 0.0
                if d_st > 1e-9:
                    v(f"step-states:{which}:{method}", f"start/step with the seed of a run gives other states than the run ({cfg}): {d_st:.2e}", cfg)
                elif d_inc > 1e-12:
                    v(f"step-increments:{which}", f"start/step reproduces the states of run() for the same seed but reports other increments (per operator / quadrature) than run(): {d_inc:.2e} ({cfg})", cfg)
                if d_rep > 1e-9:
                    v(f"step-increments-replay:{which}", f"replaying the increments returned by step(wiener_increment=True) does not reproduce the stepped trajectory ({cfg}): {d_rep:.2e}", cfg)
    # ------------------------------------------------------------------ the increments a scheme of order 1.5 reports are the ones that drove it (it also draws auxiliary
    # normal variables for the iterated integrals, which are not part of the record): replayed through a scheme of order 1 they give the same path up to the step error
    fine = np.linspace(0, 0.5, 101)
    for which in ("sme", "sse"):
        for method in [m for m in ("taylor1.5", "explicit1.5", "taylor1.5_imp") if m in (sme_methods if which == "sme" else sse_methods)]:
            for het in (False, True):
                cfg = {"eq": which, "method": method, "heterodyne": het, "check": "record of an order-1.5 scheme replayed by platen"}
                try:
                    with warnings.catch_warnings():
                        warnings.simplefilter("ignore")
                        with core.time_limit(300):
                            s15, st, sc = make(which, method, het, 1, False, 0.005)
                            r15 = s15.run(st, fine, ntraj=1, seeds=[91])
                            s10, _, _ = make(which, "platen", het, 1, False, 0.005)
                            rrp = s10.run_from_experiment(st, fine, np.asarray(r15.dW[0]))
                except core.CaseTimeout:
                    raise
                except Exception as e:
                    v(f"raises:{which}:{method}", f"{cfg}: {type(e).__name__}: {e}"[:240], cfg)
                    continue
                rep.evaluations += 1
                rep.count("order15-record-replayed")
                dd = max(float((a - b).norm()) for a, b in zip(r15.runs_states[0], rrp.states))
                if dd > 0.03:
                    v(f"order15-record:{which}", f"{method} ({which}, heterodyne={het}): the increments it reports, replayed through platen with the same step, give a path {dd:.2e} away (the step error is about 1e-3)", cfg)
    # ------------------------------------------------------------------ schemes of order 1.5 draw the same noise for the same seed: they must approach each other at their order
    pairs15 = [m for m in ("explicit1.5", "taylor1.5", "taylor1.5_imp") if m in sme_methods]
    if len(pairs15) >= 2:
        # (two homodyne channels with non-commuting operators are left out: the order-1.5 schemes neglect
        #  the Levy areas, so they need not approach each other there)
        for het, nsc in ((True, 1), (False, 1)):
            dists = {m: [] for m in pairs15[1:] + [pairs15[0]] if m != "taylor1.5"}
            steps = [0.02, 0.01, 0.005] if tier == "quick" else [0.02, 0.01, 0.005, 0.0025]
            ok = True
            for dt in steps:
                fin = {}
                for m in pairs15:
                    try:
                        with warnings.catch_warnings():
                            warnings.simplefilter("ignore")
                            with core.time_limit(300):
                                s, st, _ = make("sme", m, het, nsc, True, dt)
                                rr = s.run(st, [0, 0.4], ntraj=4, seeds=[77, 78, 79, 80])
                                fin[m] = [x[-1].full() for x in rr.runs_states]
                    except core.CaseTimeout:
                        raise
                    except Exception as e:
                        v(f"raises:sme:{m}", f"order-1.5 comparison: {type(e).__name__}: {e}"[:200])
                        ok = False
                if not ok or "taylor1.5" not in fin:
                    break
                for m in dists:
                    if m in fin:
                        dists[m].append(float(np.mean([np.abs(a - b).max() for a, b in zip(fin[m], fin["taylor1.5"])])))
            if ok:
                for m, ds in dists.items():
                    if len(ds) == len(steps) and ds[-1] > 0:
                        slope = float(np.polyfit(np.log(steps), np.log(np.maximum(ds, 1e-16)), 1)[0])
                        rep.notes.setdefault("order15_slopes", {})[f"{m}/het={het}/n_sc={nsc}"] = {"distances": ds, "slope": slope}
                        rep.evaluations += 1
                        if slope < 1.15 and ds[-1] > 1e-7:
                            v(f"order-1.5:{m}", f"{m} and taylor1.5 driven by the same noise (heterodyne={het}, {nsc} channels, time-dependent system) approach each other only as dt^{slope:.2f}: distances {['%.2e' % x for x in ds]}", {"scheme": m, "distances": ds})
    # ------------------------------------------------------------------ reporting more often does not change the trajectory
    coarse_t = np.linspace(0, 0.6, 4)
    fine_t = np.linspace(0, 0.6, 13)
    for which, methods in (("sme", sme_methods), ("sse", sse_methods)):
        for method in methods:
            for td in (False, True):
                cfg = {"eq": which, "method": method, "time_dependent": td}
                try:
                    with warnings.catch_warnings():
                        warnings.simplefilter("ignore")
                        with core.time_limit(240):
                            s, st, _ = make(which, method, False, 1, td, 0.0125)
                            ra = s.run(st, coarse_t, ntraj=1, seeds=[21])
                            s, st, _ = make(which, method, False, 1, td, 0.0125)
                            rb = s.run(st, fine_t, ntraj=1, seeds=[21])
                except core.CaseTimeout:
                    raise
                except Exception as e:
                    v(f"raises:{which}:{method}", f"{cfg}: {type(e).__name__}: {e}"[:240], cfg)
                    continue
                rep.evaluations += 1
                rep.count("reporting-interval")
                d = maxdiff(ra.runs_states[0], rb.runs_states[0][::4])
                if d > 1e-9:
                    v(f"reporting-interval:{which}:{method}", f"the same increments give different states when the trajectory is reported more often ({cfg}): {d:.2e}", cfg)
                dwa = np.asarray(ra.dW[0])[0]
                dwb = np.asarray(rb.dW[0])[0].reshape(3, 4).sum(axis=1)
                if np.abs(dwa - dwb).max() > 1e-12:
                    v(f"coarse-increments:{which}:{method}", f"reported increments of coarse intervals are not the sums of the fine ones ({cfg})", cfg)
    # ------------------------------------------------------------------ one Brownian path, refined: a common limit
    T = 0.5
    levels = [16, 32, 64, 128] if tier == "quick" else [16, 32, 64, 128, 256]
    nf = levels[-1]
    # On a single path the error of a scheme of strong order 1/2 does not decrease monotonically; "does not converge" is
    # reported only when the finest level is no better than the coarser ones on every one of several independent paths.
    npaths = 2 if tier == "quick" else 3
    stalled = {}
    for het in [False] * npaths:
        finest = rng.standard_normal((1, nf)) * np.sqrt(T / nf)
        finals = {}
        for which, methods in (("sme", sme_methods), ("sse", sse_methods)):
            # the predictor-corrector scheme also with other values of its documented weights
            variants = list(methods) + (["pred_corr|eta=0.2", "pred_corr|eta=1.0", "pred_corr|eta=0.8,alpha=0.5", "pred_corr|eta=0.0,alpha=1.0"] if "pred_corr" in methods else [])
            for method in variants:
                errs = []
                extra_o = {}
                if "|" in method:
                    extra_o = {kv.split("=")[0]: float(kv.split("=")[1]) for kv in method.split("|")[1].split(",")}
                for n in levels:
                    noise = finest.reshape(1, n, nf // n).sum(axis=2)
                    tln = np.linspace(0, T, n + 1)
                    H = qutip.QobjEvo([0.5 * sz, [0.3 * sx, f_t]], args={"w": 3.0})
                    o = dict({"method": method.split("|")[0], "dt": T / n, "store_states": False, "store_final_state": True, "progress_bar": ""}, **extra_o)
                    try:
                        with warnings.catch_warnings():
                            warnings.simplefilter("ignore")
                            with core.time_limit(240):
                                if which == "sme":
                                    s = qutip.SMESolver(H, sc_ops=[0.6 * sm], heterodyne=False, options=o)
                                    fin = s.run_from_experiment(rho0, tln, noise).final_state.full()
                                else:
                                    s = qutip.SSESolver(H, sc_ops=[0.6 * sm], heterodyne=False, options=o)
                                    k = s.run_from_experiment(psi0, tln, noise).final_state
                                    fin = (k.proj() / (k.norm() ** 2)).full()
                    except core.CaseTimeout:
                        raise
                    except NotImplementedError:
                        rep.count("refinement-not-replayable:" + method)
                        fin = None
                        break
                    except Exception as e:
                        v(f"raises:{which}:{method}", f"refinement {which}/{method}: {type(e).__name__}: {e}"[:240])
                        fin = None
                        break
                    errs.append(fin)
                if fin is not None:
                    finals[(which, method)] = errs
        if finals:
            ref = np.mean([x[-1] for x in finals.values()], axis=0)
            dist = {f"{k[0]}/{k[1]}": [float(np.abs(x - ref).max()) for x in errs] for k, errs in finals.items()}
            rep.notes["refinement_distance_to_common_limit"] = dist
            for name, ds in dist.items():
                rep.evaluations += 1
                if ds[-1] > 0.08:
                    v(f"common-limit:{name}", f"{name}: on one Brownian path refined to dt = {T / nf:.4f} the final state is {ds[-1]:.3f} away from the limit shared by the other schemes (levels: {['%.3f' % x for x in ds]})", {"scheme": name, "distances": ds})
                elif ds[-1] > 0.6 * max(ds[:-1]) + 0.01:
                    stalled.setdefault(name, []).append(ds)
    for name, dss in stalled.items():
        if len(dss) == npaths:
            v(f"no-convergence:{name}", f"{name}: on each of {npaths} Brownian paths the distance to the common limit does not decrease under refinement: {[['%.3f' % x for x in ds] for ds in dss]}", {"scheme": name, "distances": dss})
    for sig, (what, data) in viol.items():
        rep.violation(core.Violation("C17:" + sig, what, data))
    if (ndis or not proved) and not rep.violations:
        rep.violation(core.Violation("C17:unverified", "model/proof no longer matches the code and no failing input was found",
                                     {"broken": rep.broken}, failing_input_found=False))
    return rep.finish()


if __name__ == "__main__":
    core.main(run, PID)
