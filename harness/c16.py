"""C16 — Monte-Carlo trajectories are realisations of the quantum-jump process.

Correspondence (exact rationals on the floats used): the real `MCIntegrator._find_collapse_time` and
`_do_collapse`, driven with a mock integrator whose squared norm is an exact piecewise function and with
scripted random numbers, against the Lean model (`findCollapse` fed with the guesses the real code
made, `channel`): returned time, number of tries, refusal, chosen channel, random numbers consumed.
Oracle (independent): a reference unravelling — matrix exponential of the effective generator between
jumps, jump times by root finding on the squared norm, channel by the cumulative-rate rule, the same
random stream — decides each individual trajectory of `mcsolve` (collapse times, channels, states) for
random systems, several channels (including one that annihilates the state), integration methods,
jump-search settings and output time lists; improved sampling (no-jump trajectory and its weight, every
sampled trajectory jumps); non-Markovian solver: arguments given at construction or at run time give the
same trajectories and trace weights; ensemble means against mesolve only as a sanity figure.
"""
import json
import os
import sys
import warnings
from fractions import Fraction

import numpy as np

sys.path.insert(0, os.path.dirname(os.path.abspath(__file__)))
import core

PID = "C16"


def fr(x):
    f = Fraction(float(x))
    return str(f.numerator) if f.denominator == 1 else f"{f.numerator}/{f.denominator}"


class ScriptedGen:
    """hands out the given numbers, counts how many were used"""

    def __init__(self, values):
        self.values = list(values)
        self.used = 0

    def random(self):
        x = self.values[self.used]
        self.used += 1
        return x


class MockIntegrator:
    """no-jump evolution of a one-component state with amplitude a(t) piecewise linear through dyadic knots"""
    method = "mock"

    def __init__(self, knots, h):
        self.knots, self.h = knots, h
        self.t = knots[0][0]
        self.calls = []

    def ampl(self, t):
        ks = self.knots
        if t <= ks[0][0]:
            return ks[0][1]
        for (t0, a0), (t1, a1) in zip(ks[:-1], ks[1:]):
            if t <= t1:
                return a0 + (a1 - a0) * (t - t0) / (t1 - t0)
        return ks[-1][1]

    def _state(self, t):
        from qutip import data as _data
        return _data.Dense(np.array([[self.ampl(t)]], dtype=complex))

    def set_state(self, t, state):
        self.t = t

    def get_state(self, copy=True):
        return self.t, self._state(self.t)

    def mcstep(self, t, copy=True):
        self.calls.append(t)
        self.t = t if t <= self.t else min(t, self.t + self.h)
        return self.t, self._state(self.t)

    def reset(self, hard=False):
        pass

    def arguments(self, args):
        pass


class MockOp:
    issuper = False

    def __init__(self, rate, factor):
        self.rate, self.factor = rate, factor

    def expect_data(self, t, state):
        return complex(self.rate)

    def matmul_data(self, t, state):
        from qutip import data as _data
        return _data.mul(state, self.factor)

    def arguments(self, args):
        pass


class MockSystem:
    def __init__(self, rates):
        self.n_ops = [MockOp(r, 1.0) for r in rates]
        self.c_ops = [MockOp(r, 0.5 + 0.25 * i) for i, r in enumerate(rates)]

    def _register_feedback(self, key, val):
        pass


def reference_trajectory(H, c_ops, psi0, tlist, seed, annihilate_eps=1e-12):
    """the quantum-jump unravelling, with the random stream of the seed"""
    import scipy.linalg as sla
    from scipy.optimize import brentq
    gen = np.random.default_rng(seed)
    G = -1j * H - 0.5 * sum(c.conj().T @ c for c in c_ops)
    ev, V = np.linalg.eig(G)
    Vi = np.linalg.inv(V)

    def prop(tau, psi):
        return V @ (np.exp(ev * tau) * (Vi @ psi))
    t, psi = tlist[0], psi0.astype(complex) / np.linalg.norm(psi0)
    target = gen.random()
    out, jumps, slopes = [], [], []
    for tk in tlist:
        while True:
            end = prop(tk - t, psi)
            if np.vdot(end, end).real > target:
                break
            f = lambda tau: np.vdot(prop(tau, psi), prop(tau, psi)).real - target      # noqa
            tau = brentq(f, 0.0, tk - t, xtol=1e-14, rtol=1e-14) if f(0.0) > 0 else 0.0
            before = prop(tau, psi)
            if len(c_ops) == 1:
                k = 0
            else:
                probs = np.cumsum([np.vdot(c @ before, c @ before).real for c in c_ops])
                k = int(np.searchsorted(probs, probs[-1] * gen.random()))
            new = c_ops[k] @ before
            nn = np.linalg.norm(new)
            slope = sum(np.vdot(c @ before, c @ before).real for c in c_ops)
            slopes.append((target, slope))
            t = t + tau
            if nn < annihilate_eps:
                psi = before / np.linalg.norm(before)
                slopes.pop()
            else:
                psi = new / nn
                jumps.append((t, k))
                target = gen.random()
        out.append(end / np.linalg.norm(end))
    return out, jumps, slopes


def reference_trajectory_dm(Lmat, c_ops, rho0, tlist, seed):
    """the quantum-jump unravelling for density matrices: between jumps rho follows L - 1/2 sum {c+c, .}, a jump happens when
    the trace reaches the drawn threshold, the channel is drawn with probabilities tr(c rho c+)"""
    from scipy.optimize import brentq
    gen = np.random.default_rng(seed)
    d = rho0.shape[0]
    Id = np.eye(d)
    G = Lmat.astype(complex).copy()
    for c in c_ops:
        n = c.conj().T @ c
        G -= 0.5 * (np.kron(Id, n) + np.kron(n.T, Id))       # column stacking: vec(A X B) = (B^T kron A) vec(X)
    ev, V = np.linalg.eig(G)
    Vi = np.linalg.inv(V)

    def prop(tau, r):
        return (V @ (np.exp(ev * tau) * (Vi @ r.reshape(-1, order="F")))).reshape(d, d, order="F")
    t, rho = tlist[0], rho0.astype(complex) / np.trace(rho0)
    target = gen.random()
    out, jumps = [], []
    for tk in tlist:
        while True:
            end = prop(tk - t, rho)
            if np.trace(end).real > target:
                break
            f = lambda tau: np.trace(prop(tau, rho)).real - target      # noqa
            tau = brentq(f, 0.0, tk - t, xtol=1e-14, rtol=1e-14) if f(0.0) > 0 else 0.0
            before = prop(tau, rho)
            probs = np.cumsum([np.trace(c @ before @ c.conj().T).real for c in c_ops])
            k = 0 if len(c_ops) == 1 else int(np.searchsorted(probs, probs[-1] * gen.random()))
            new = c_ops[k] @ before @ c_ops[k].conj().T
            t = t + tau
            rho = new / np.trace(new)
            jumps.append((t, k))
            target = gen.random()
        out.append(end / np.trace(end))
    return out, jumps


def other_forms(rep, rng, tier, v):
    """Liouvillian form (some channels treated deterministically), density-matrix states and mixed initial states:
    every trajectory is the unravelling of its own initial state with its own seed"""
    import qutip
    tight = {"progress_bar": "", "keep_runs_results": True, "store_states": True, "norm_tol": 1e-8, "norm_t_tol": 1e-10, "norm_steps": 60, "atol": 1e-11, "rtol": 1e-9}
    for _ in range(3 if tier == "quick" else 15):
        d = int(rng.choice([2, 3]))
        H = qutip.rand_herm(d, seed=int(rng.integers(1 << 30)))
        cs = [np.sqrt(rng.uniform(0.3, 1.2)) * qutip.Qobj(rng.standard_normal((d, d)) + 1j * rng.standard_normal((d, d))) / np.sqrt(d) for _ in range(int(rng.integers(1, 3)))]
        cdet = np.sqrt(rng.uniform(0.2, 0.8)) * qutip.Qobj(rng.standard_normal((d, d)) + 1j * rng.standard_normal((d, d))) / np.sqrt(d)
        psi0 = qutip.rand_ket(d, seed=int(rng.integers(1 << 30)))
        tl = np.linspace(0, float(rng.uniform(1.5, 3.0)), int(rng.choice([3, 6])))
        cfg = {"dim": d, "H": str(H.full().tolist()), "c_ops": [str(c.full().tolist()) for c in cs], "c_det": str(cdet.full().tolist()), "psi0": str(psi0.full().ravel().tolist()), "tlist": tl.tolist()}

        def compare(tag, r, j, ref_states, ref_jumps, as_dm):
            rep.evaluations += 1
            rep.count("form=" + tag)
            got_t, got_k = list(r.col_times[j]), [int(x) for x in r.col_which[j]]
            if len(got_t) != len(ref_jumps) or any(a != b[1] for a, b in zip(got_k, ref_jumps)):
                if any(min(abs(tj - x) for x in tl[1:]) < 1e-5 for tj, _ in ref_jumps):
                    return
                v(f"form-jumps:{tag}", f"{tag}: trajectory has collapses {list(zip([round(x, 6) for x in got_t], got_k))}, the jump process with the same random numbers has {[(round(a, 6), b) for a, b in ref_jumps]}", cfg)
                return
            if got_t and max(abs(a - b[0]) for a, b in zip(got_t, ref_jumps)) > 1e-5:
                v(f"form-jump-time:{tag}", f"{tag}: collapse times {got_t} vs {[a for a, _ in ref_jumps]}", cfg)
                return
            for a, b in zip(r.runs_states[j], ref_states):
                A = a.full()
                if A.shape[1] == 1:
                    A = A @ A.conj().T
                B = b if as_dm else np.outer(b, b.conj())
                if np.abs(A - B).max() > 1e-4:
                    v(f"form-state:{tag}", f"{tag}: reported states differ from the jump process by {np.abs(A - B).max():.1e}", cfg)
                    return
        for sd in [int(x) for x in rng.integers(0, 1 << 30, 2)]:
            try:
                with warnings.catch_warnings():
                    warnings.simplefilter("ignore")
                    with core.time_limit(300):
                        ref_s, ref_j, _ = reference_trajectory(H.full(), [c.full() for c in cs], psi0.full().ravel(), tl, sd)
                        for tag, Harg, st in (("liouvillian-ket", qutip.liouvillian(H), psi0), ("liouvillian-dm", qutip.liouvillian(H), qutip.ket2dm(psi0))):
                            compare(tag, qutip.mcsolve(Harg, st, tl, cs, ntraj=1, seeds=[sd], options=tight), 0, ref_s, ref_j, False)
                        # the class interface with one Liouvillian object handed to several solvers (improved sampling off / on):
                        # every solver unravels the same equation, whichever was built or run first
                        Lobj = qutip.QobjEvo(qutip.liouvillian(H))
                        sA = qutip.MCSolver(Lobj, cs, options=tight)
                        sB = qutip.MCSolver(Lobj, cs, options=dict(tight, improved_sampling=False))
                        sC = qutip.MCSolver(Lobj, cs, options=tight)
                        compare("liouvillian-object:second-solver", sB.run(psi0, tl, ntraj=1, seeds=[sd]), 0, ref_s, ref_j, False)
                        compare("liouvillian-object:third-solver", sC.run(psi0, tl, ntraj=1, seeds=[sd]), 0, ref_s, ref_j, False)
                        compare("liouvillian-object:first-solver", sA.run(psi0, tl, ntraj=1, seeds=[sd]), 0, ref_s, ref_j, False)
                        Ld = qutip.liouvillian(H, [cdet])
                        rd_s, rd_j = reference_trajectory_dm(Ld.full(), [c.full() for c in cs], qutip.ket2dm(psi0).full(), tl, sd)
                        compare("deterministic-channel", qutip.mcsolve(Ld, psi0, tl, cs, ntraj=1, seeds=[sd], options=tight), 0, rd_s, rd_j, True)
            except core.CaseTimeout:
                raise
            except Exception as e:
                v("form-raises", f"mcsolve in Liouvillian form: {type(e).__name__}: {e}"[:200], cfg)
        # time-dependent Hamiltonian and collapse operators: a time-dependent form of the constant problem is the constant problem;
        # for a genuinely time-dependent one the integration methods produce the same trajectory for a seed
        H1 = qutip.rand_herm(d, seed=int(rng.integers(1 << 30)))
        sd = int(rng.integers(1 << 30))
        try:
            with warnings.catch_warnings():
                warnings.simplefilter("ignore")
                with core.time_limit(300):
                    ref_s, ref_j, _ = reference_trajectory(H.full(), [c.full() for c in cs], psi0.full().ravel(), tl, sd)
                    Hc = qutip.QobjEvo([0.5 * H, [0.5 * H, lambda t: 1.0]])
                    cc = [qutip.QobjEvo([c, lambda t, k=1.0: k]) for c in cs]
                    compare("time-dependent-form-of-constant", qutip.mcsolve(Hc, psi0, tl, cc, ntraj=1, seeds=[sd], options=tight), 0, ref_s, ref_j, False)
                    Ht = qutip.QobjEvo([H, [H1, lambda t: np.cos(2.0 * t)]])
                    ct = [qutip.QobjEvo([c, lambda t: 1.0 + 0.5 * np.sin(t)]) for c in cs]
                    runs = {}
                    for meth in ("adams", "vern7", "dop853"):
                        runs[meth] = qutip.mcsolve(Ht, psi0, tl, ct, ntraj=1, seeds=[sd], options=dict(tight, method=meth))
                    for meth in ("vern7", "dop853"):
                        ra, rb = runs["adams"], runs[meth]
                        rep.evaluations += 1
                        rep.count("form=time-dependent:" + meth)
                        ka, kb = [int(x) for x in ra.col_which[0]], [int(x) for x in rb.col_which[0]]
                        ta, tb = list(ra.col_times[0]), list(rb.col_times[0])
                        if ka != kb or (ta and max(abs(x - y) for x, y in zip(ta, tb)) > 1e-5):
                            if any(min(abs(tj - x) for x in tl[1:]) < 1e-5 for tj in ta + tb):
                                continue
                            v("td-methods-disagree", f"time-dependent problem, seed {sd}: adams gives collapses {list(zip(ta, ka))}, {meth} gives {list(zip(tb, kb))}", cfg)
                        elif max((x - y).norm() for x, y in zip(ra.runs_states[0], rb.runs_states[0]) if abs(abs(x.overlap(y)) - 1) > 0 or True) > 1e-4 and \
                                max(1 - abs(x.overlap(y)) for x, y in zip(ra.runs_states[0], rb.runs_states[0])) > 1e-5:
                            v("td-methods-disagree-state", f"time-dependent problem, seed {sd}: states of adams and {meth} differ", cfg)
        except core.CaseTimeout:
            raise
        except Exception as e:
            v("td-raises", f"mcsolve with time-dependent operators: {type(e).__name__}: {e}"[:200], cfg)
        # mixed initial state: every trajectory starts from a member of the ensemble and is that member's trajectory for its seed
        a_, b_ = qutip.rand_ket(d, seed=int(rng.integers(1 << 30))), None
        other = qutip.rand_ket(d, seed=int(rng.integers(1 << 30)))
        b_ = (other - a_.overlap(other) * a_).unit()
        pw = float(rng.choice([0.25, 0.3, 0.5, 0.8]))
        rho0 = pw * a_.proj() + (1 - pw) * b_.proj()
        for ntraj in (6, 9):
            try:
                with warnings.catch_warnings():
                    warnings.simplefilter("ignore")
                    with core.time_limit(300):
                        r = qutip.mcsolve(H, rho0, tl, cs, ntraj=ntraj, seeds=int(rng.integers(1 << 30)), options=tight)
            except core.CaseTimeout:
                raise
            except Exception as e:
                v("mixed-raises", f"mcsolve with a mixed initial state: {type(e).__name__}: {e}"[:200], cfg)
                continue
            w = np.array(r.runs_weights, dtype=float)
            if abs(w.sum() + sum(r.deterministic_weights) - 1) > 1e-9:
                v("mixed-weights", f"weights of a mixed-state ensemble sum to {w.sum()}", cfg)
            if (r.average_states[0] - rho0).norm() > 1e-9:
                v("mixed-initial-average", f"the ensemble average at the initial time differs from the initial density matrix by {(r.average_states[0] - rho0).norm():.1e}", cfg)
            for j in range(len(r.seeds)):
                s0 = r.runs_states[j][0].full().ravel()
                member = max(r.initial_states, key=lambda m: abs(np.vdot(m[0].full().ravel() if isinstance(m, tuple) else m.full().ravel(), s0)))
                mvec = (member[0] if isinstance(member, tuple) else member).full().ravel()
                if abs(abs(np.vdot(mvec, s0)) - 1) > 1e-8:
                    v("mixed-start", "a trajectory of a mixed-state ensemble does not start from a member of the ensemble", cfg)
                    break
                ref_s, ref_j, _ = reference_trajectory(H.full(), [c.full() for c in cs], mvec, tl, r.seeds[j])
                compare("mixed-member", r, j, ref_s, ref_j, False)


def run(tier, seed, replay):
    rep = core.Report(PID, tier, seed)
    rep.rule = ("jump search: random piecewise-linear norms x thresholds x (norm_steps, norm_tol, norm_t_tol) settings; channel rule: random rates incl. zeros x draws; "
                "reference unravelling: random 2-4 level systems x 1-3 channels x methods x search settings x seeds; non-trivial = trajectory with at least one jump")
    rep.assumptions = ["reference and implementation are compared per trajectory: same number of collapses and channels, times within 10 x (norm_tol / rate + norm_t_tol) + ODE tolerance, states within 100 x that; a jump closer than that to an output time or to the end is not counted as a mismatch",
                       "RuntimeError from the jump search (tries exhausted) is a documented refusal, counted, never compared",
                       "ensemble means versus mesolve are reported as a sanity figure (6 sigma) only"]
    core.build_repo()
    proved = core.prove(rep, ["Qv.Model.C16", "Qv.Props.C16"], "Qv.Props.C16")
    if tier == "thorough":
        core.leanchecker(rep, ["Qv.Props.C16"])
    import qutip
    from qutip import data as _data
    from qutip.solver.mcsolve import MCIntegrator
    rng = np.random.default_rng(seed)
    viol = {}

    def v(sig, what, data=None):
        if sig not in viol:
            viol[sig] = (what, data or {"what": what})
    # ------------------------------------------------------------------ correspondence: jump search
    lines, expect = [], []
    nsearch = 150 if tier == "quick" else 1500
    for _ in range(nsearch):
        nk = int(rng.integers(2, 6))
        ts = np.cumsum(rng.integers(1, 9, nk) / 8.0)
        ts = np.concatenate([[0.0], ts])
        amps = np.sort(rng.integers(1, 1024, nk + 1))[::-1] / 1024.0
        amps[0] = 1.0
        knots = [(float(a), float(b)) for a, b in zip(ts, amps)]
        opts = {"norm_steps": int(rng.choice([2, 3, 5, 8, 12, 20])), "norm_tol": float(rng.choice([1e-2, 1e-3, 1e-4, 1e-6])), "norm_t_tol": float(rng.choice([1e-2, 1e-4, 1e-6])), "mc_corr_eps": 1e-10}
        mock = MockIntegrator(knots, h=10.0)
        mci = MCIntegrator(mock, MockSystem([1.0]), opts)
        # choose a bracket [t_prev, t_final] and a threshold inside it
        i = int(rng.integers(0, nk))
        t_prev, t_final = knots[i][0], knots[min(i + int(rng.integers(1, 3)), nk)][0]
        n_old, n_new = mock.ampl(t_prev) ** 2, mock.ampl(t_final) ** 2
        if not n_new < n_old:
            continue
        target = float(n_new + (n_old - n_new) * rng.random())
        mci.target_norm = target
        mock.t = t_final
        mock.calls = []
        try:
            with core.time_limit(30):
                t_col, state = mci._find_collapse_time(n_old, n_new, t_prev, t_final)
            got = {"t": float(t_col), "norm": float(_data.norm.l2(state) ** 2)}
        except RuntimeError:
            got = "RuntimeError"
        case = {"knots": [[fr(a), fr(b)] for a, b in knots], "normSteps": opts["norm_steps"], "normTol": fr(opts["norm_tol"]), "normTTol": fr(opts["norm_t_tol"]),
                "target": fr(target), "tPrev": fr(t_prev), "tFinal": fr(t_final), "guesses": [fr(x) for x in mock.calls]}
        lines.append("C16.search " + json.dumps(case))
        expect.append(("search", got, len(mock.calls), mock, case))
        rep.case({"search": [opts["norm_steps"], opts["norm_tol"], opts["norm_t_tol"]]}, True)
        rep.count("search-outcome=" + ("refused" if got == "RuntimeError" else "found"))
    # channel rule
    for _ in range(200 if tier == "quick" else 2000):
        n = int(rng.integers(1, 6))
        rates = [float(x) for x in rng.integers(0, 9, n) / 8.0]
        if sum(rates) == 0:
            rates[int(rng.integers(0, n))] = 0.5
        u = float(rng.integers(0, 1024) / 1024.0)
        gen = ScriptedGen([u, 0.625, 0.375])
        mock = MockIntegrator([(0.0, 1.0), (1.0, 0.5)], h=10.0)
        mci = MCIntegrator(mock, MockSystem(rates), {"norm_steps": 5, "norm_tol": 1e-4, "norm_t_tol": 1e-6, "mc_corr_eps": 1e-10})
        mci._generator = gen
        mci.collapses = []
        mci.target_norm = 0.5
        mci._do_collapse(0.25, mock._state(0.25))
        which = mci.collapses[0][1] if mci.collapses else None
        lines.append("C16.channel " + json.dumps({"rates": [fr(r) for r in rates], "u": fr(u)}))
        expect.append(("channel", which, gen.used, None, {"rates": rates, "u": u}))
        rep.count("channels=%d" % n)
    # the trace weight of non-Markovian trajectories: histories of initialize / add_collapse / value on the real
    # InfluenceMartingale, its continuous segment replaced by an exact one (seg(a, b) = g(b) / g(a), g(t) = 1 + t^2)
    from qutip.solver.nm_mcsolve import InfluenceMartingale

    class _FakeNm:
        def __init__(self):
            self.factor = Fraction(1)

        def rate(self, t, i):
            return Fraction(self.factor.numerator)

        def rate_shift(self, t):
            return Fraction(self.factor.denominator - self.factor.numerator)

    def fs(x):
        return str(Fraction(x))
    for _ in range(150 if tier == "quick" else 1500):
        nm = _FakeNm()
        mart = InfluenceMartingale(nm, 1.0, 50)
        mart._compute_continuous_martingale = lambda t1, t2: Fraction(1) if t1 == t2 else (1 + t2 * t2) / (1 + t1 * t1)
        pool_t = [Fraction(k, 2) for k in range(0, 9)]
        t0 = pool_t[int(rng.integers(0, 3))]
        ops, outs = [], []
        nops = int(rng.integers(2, 14))
        started = False
        for k in range(nops):
            r = rng.random()
            if (not started and r < 0.85) or r < 0.12:
                if started and rng.random() < 0.5:
                    tt0, cache = t0, "keep"          # what set_state does for every trajectory of a run
                else:
                    tt0 = t0 if rng.random() < 0.8 else pool_t[int(rng.integers(0, 4))]
                    cache = str(rng.choice(["clear", "times", "times", "keep"]))
                if cache == "times":
                    tl = sorted(set([tt0] + [pool_t[int(i)] for i in rng.integers(0, len(pool_t), int(rng.integers(1, 5)))]))
                    tl = [x for x in tl if x >= tt0]
                    mart.initialize(tt0, cache=tl)
                    ops.append(["init", fs(tt0), [fs(x) for x in tl]])
                else:
                    mart.initialize(tt0, cache=cache)
                    ops.append(["init", fs(tt0), cache])
                t0 = tt0
                started = True
                outs.append("ok")
            elif r < 0.35:
                tc = pool_t[int(rng.integers(0, len(pool_t)))] + Fraction(1, 4)
                nm.factor = Fraction(int(rng.integers(1, 8)), int(rng.integers(1, 8)))
                if nm.factor == 0 or nm.factor.denominator == 0:
                    nm.factor = Fraction(1, 2)
                ops.append(["collapse", fs(tc), fs(nm.factor)])
                try:
                    mart.add_collapse(tc, 0)
                    outs.append("ok")
                except RuntimeError:
                    outs.append("RuntimeError")
            else:
                tq = pool_t[int(rng.integers(0, len(pool_t)))]
                ops.append(["value", fs(tq)])
                try:
                    outs.append(fs(Fraction(mart.value(tq))))
                except RuntimeError:
                    outs.append("RuntimeError")
        lines.append("C16.martingale " + json.dumps({"ops": ops}))
        expect.append(("martingale", outs, None, None, {"ops": ops}))
        rep.count("martingale-history")
    model = core.run_driver(lines)
    ndis, first = 0, None
    for line, ex, m in zip(lines, expect, model):
        bad = None
        if isinstance(m, dict) and "error" in m:
            bad = {"model": m}
        elif ex[0] == "martingale":
            got = [x if x in ("ok", "RuntimeError") else fs(Fraction(x)) for x in m]
            if got != ex[1]:
                bad = {"model": got, "impl": ex[1], "case": ex[4]}
        elif ex[0] == "search":
            _, got, ncalls, mock, case = ex
            if (m == "RuntimeError") != (got == "RuntimeError"):
                bad = {"model": m, "impl": got, "case": case}
            elif m != "RuntimeError":
                mt = float(Fraction(m["t"]))
                st = float(Fraction(m["stateAt"]))
                if abs(mt - got["t"]) > 1e-15 or abs(mock.ampl(st) ** 2 - got["norm"]) > 1e-12:
                    bad = {"model": m, "impl": got, "case": case}
        else:
            _, which, used, _, case = ex
            if m["which"] != which or m["draws"] != used:
                bad = {"model": m, "impl": {"which": which, "draws": used}, "case": case}
        if bad:
            ndis += 1
            if first is None:
                first = dict(bad, op=line.split(" ", 1)[0])
    rep.notes["correspondence_disagreements"] = ndis
    rep.notes["correspondence_lines"] = len(lines)
    if ndis:
        rep.broken.append({"kind": "correspondence", "count": ndis, "first": first})
    # ------------------------------------------------------------------ oracle: reference unravelling
    ncases = 14 if tier == "quick" else 80
    njump = 0
    settings = [({}, 1.0), ({"norm_tol": 1e-8, "norm_t_tol": 1e-10, "norm_steps": 60, "atol": 1e-11, "rtol": 1e-9}, 1e-4),
                ({"method": "dop853", "atol": 1e-10, "rtol": 1e-8}, 1.0), ({"method": "vern7", "atol": 1e-10, "rtol": 1e-8}, 1.0),
                ({"method": "diag"}, 1.0), ({"norm_steps": 2}, 1.0), ({"norm_steps": 1}, 1.0), ({"method": "vern9", "norm_tol": 1e-6, "norm_t_tol": 1e-8, "norm_steps": 10}, 0.01),
                ({"method": "bdf", "atol": 1e-10, "rtol": 1e-8}, 1.0), ({"method": "lsoda", "atol": 1e-10, "rtol": 1e-8}, 1.0)]
    for ci in range(ncases):
        d = int(rng.choice([2, 3, 4]))
        H = qutip.rand_herm(d, seed=int(rng.integers(1 << 30)))
        nchan = int(rng.integers(1, 4))
        cs = []
        for k in range(nchan):
            if k == 2:
                # a channel that annihilates part of the space
                cs.append(np.sqrt(rng.uniform(0.3, 1.2)) * qutip.basis(d, 0) * qutip.basis(d, d - 1).dag())
            else:
                cs.append(np.sqrt(rng.uniform(0.2, 1.5)) * qutip.Qobj(rng.standard_normal((d, d)) + 1j * rng.standard_normal((d, d))) / np.sqrt(d))
        psi0 = qutip.rand_ket(d, seed=int(rng.integers(1 << 30)))
        T = float(rng.uniform(1.0, 3.0))
        tl = np.linspace(0, T, int(rng.choice([2, 3, 6, 11])))
        rate = float(sum(np.linalg.norm(c.full(), 2) ** 2 for c in cs))
        for opt, scale in settings:
            if tier == "quick" and rng.random() < 0.5:
                continue
            if opt.get("method") == "diag" and False:
                continue
            o = {"progress_bar": "", "keep_runs_results": True, "store_states": True}
            o.update(opt)
            ntol = o.get("norm_tol", 1e-4)
            tt = o.get("norm_t_tol", 1e-6)
            dt_tol = 10 * (ntol / max(rate, 0.2) * 5 + tt) + 1e-6
            seeds = [int(x) for x in rng.integers(0, 1 << 30, 3)]
            for sd in seeds:
                cfg = {"dim": d, "channels": nchan, "options": {k: str(x) for k, x in opt.items()}, "seed": sd, "tlist": tl.tolist(), "H": str(H.full().tolist()), "c_ops": [str(c.full().tolist()) for c in cs], "psi0": str(psi0.full().ravel().tolist())}
                try:
                    with warnings.catch_warnings():
                        warnings.simplefilter("ignore")
                        with core.time_limit(120):
                            r = qutip.mcsolve(H, psi0, tl, cs, ntraj=1, seeds=[sd], options=o)
                except core.CaseTimeout:
                    raise
                except RuntimeError as e:
                    rep.count("refused:" + (opt.get("method") or "adams"))
                    continue
                except Exception as e:
                    if type(e).__name__ == "IntegratorException":
                        rep.count("refused-integrator:" + (opt.get("method") or "adams"))
                        continue
                    if "lsoda" in str(opt) or "Numerical result out of range" in str(e):
                        rep.count("raises:" + type(e).__name__)
                        continue
                    v(f"mcsolve-raises:{opt.get('method', 'adams')}", f"mcsolve raises {type(e).__name__}: {e}"[:200], cfg)
                    continue
                ref_states, ref_jumps, ref_slopes = reference_trajectory(H.full(), [c.full() for c in cs], psi0.full().ravel(), tl, sd)
                rep.evaluations += 1
                got_t, got_k = list(r.col_times[0]), list(r.col_which[0])
                if ref_jumps:
                    njump += 1
                rep.case({"mc": [d, nchan, str(opt)]}, bool(ref_jumps))
                rep.count("method=" + (opt.get("method") or "adams"))
                near = [tj for tj, _ in ref_jumps if min(abs(tj - x) for x in tl[1:]) < 3 * dt_tol]
                ok_struct = len(got_t) == len(ref_jumps) and all(a == b[1] for a, b in zip(got_k, ref_jumps))
                if not ok_struct:
                    if near or len(got_t) != len(ref_jumps) and any(abs(np.vdot(x, x).real) < 0 for x in []):
                        rep.count("borderline-skipped")
                        continue
                    # a draw within the search tolerance of a channel boundary can legitimately flip
                    v(f"jumps:{opt.get('method', 'adams')}:{'default' if not opt else ','.join(sorted(opt))}",
                      f"mcsolve trajectory (seed {sd}) has collapses {list(zip([round(x, 5) for x in got_t], got_k))}, the jump process with the same random numbers has {[(round(a, 5), b) for a, b in ref_jumps]}", cfg)
                    continue
                dts = [abs(a - b[0]) for a, b in zip(got_t, ref_jumps)]
                # time resolution of the search: norm_tol x threshold / (local decay rate of the squared norm)
                local = [10 * (ntol * tg / max(sl, 1e-3) + tt) + 1e-6 + (1e-5 if not scale < 1 else 0.0) for tg, sl in ref_slopes]
                dt_tol = max([dt_tol] + local) if scale >= 1 else max(local + [1e-7])
                # every jump inherits the timing error of the ones before it (the state after a jump that happened a little late
                # is a little different): the k-th jump is allowed k + 1 times the resolution of one search
                over_ = [(x_, k_) for k_, x_ in enumerate(dts) if x_ > dt_tol * (1 + k_)]
                if over_:
                    v(f"jump-time:{opt.get('method', 'adams')}:{'default' if not opt else ','.join(sorted(opt))}",
                      f"collapse number {over_[0][1]} off by {over_[0][0]:.2e} (allowed {dt_tol * (1 + over_[0][1]):.1e}) for seed {sd}: {got_t} vs {[a for a, _ in ref_jumps]}", cfg)
                    continue
                sdiff = 0.0
                for a, b in zip(r.runs_states[0], ref_states):
                    A = a.full().ravel()
                    if abs(np.linalg.norm(A) - 1) > 1e-8:
                        v("state-not-normalised", f"reported state has norm {np.linalg.norm(A)}", cfg)
                    sdiff = max(sdiff, 1 - abs(np.vdot(A, b)))
                if sdiff > max(100 * dt_tol * max(rate, 1.0), 1e-5) and not near:
                    v(f"state:{opt.get('method', 'adams')}:{'default' if not opt else ','.join(sorted(opt))}", f"states differ from the jump process (1 - overlap = {sdiff:.2e}) for seed {sd}", cfg)
    rep.notes["trajectories_with_jumps"] = njump
    # ------------------------------------------------------------------ improved sampling
    for _ in range(4 if tier == "quick" else 20):
        d = 3
        H = qutip.rand_herm(d, seed=int(rng.integers(1 << 30)))
        cs = [np.sqrt(0.4) * qutip.destroy(d), np.sqrt(0.1) * qutip.num(d)]
        psi0 = qutip.rand_ket(d, seed=int(rng.integers(1 << 30)))
        tl = np.linspace(0, 1.5, 4)
        o = {"progress_bar": "", "keep_runs_results": True, "store_states": True, "improved_sampling": True}
        r = qutip.mcsolve(H, psi0, tl, cs, ntraj=6, seeds=int(rng.integers(1 << 30)), options=o)
        G = -1j * H.full() - 0.5 * sum(c.full().conj().T @ c.full() for c in cs)
        import scipy.linalg as sla
        nj = [sla.expm(G * t) @ psi0.full().ravel() for t in tl]
        p0 = float(np.vdot(nj[-1], nj[-1]).real)
        rep.evaluations += 1
        rep.count("improved-sampling")
        det = getattr(r, "deterministic_trajectories", [])
        if len(det) != 1:
            v("improved-sampling:no-jump-missing", f"improved sampling: {len(det)} deterministic trajectories")
            continue
        dstates = det[0].states
        ov = min(abs(np.vdot(a.full().ravel(), b / np.linalg.norm(b))) for a, b in zip(dstates, nj))
        if ov < 1 - 1e-6:
            v("improved-sampling:no-jump-trajectory", f"the no-jump trajectory is not the normalised effective-Hamiltonian evolution (overlap {ov})")
        w = list(np.asarray(r.deterministic_weights).ravel()) if hasattr(r, "deterministic_weights") else None
        if w is not None and abs(w[0] - p0) > 1e-5:
            v("improved-sampling:no-jump-weight", f"weight of the no-jump trajectory {w[0]} != final squared norm {p0}")
        if any(len(ct) == 0 for ct in r.col_times):
            v("improved-sampling:sample-without-jump", "a sampled trajectory of improved sampling has no jump")
        rw = np.asarray(r.runs_weights).ravel() if hasattr(r, "runs_weights") else None
        if rw is not None and w is not None and abs(sum(rw) + w[0] - 1) > 1e-9:
            v("improved-sampling:weights", f"weights sum to {sum(rw) + w[0]}")
    # ------------------------------------------------------------------ non-Markovian variant with improved sampling: the no-jump trajectory
    # enters every average, the final state included, with its weight times its trace (martingale)
    def nm_rate_neg(t):
        return 0.4 - 0.7 * np.sin(3.0 * t) ** 2
    for keep in (False, True):
        try:
            Hn = 0.5 * qutip.sigmaz() + 0.2 * qutip.sigmax()
            ops_rates = [(qutip.sigmam(), qutip.coefficient(nm_rate_neg)), (qutip.sigmaz(), 0.3)]
            psin = (qutip.basis(2, 0) + 0.5j * qutip.basis(2, 1)).unit()
            tln = np.linspace(0, 1.5, 5)
            base_o = {"progress_bar": "", "improved_sampling": True, "keep_runs_results": keep}
            with warnings.catch_warnings():
                warnings.simplefilter("ignore")
                with core.time_limit(300):
                    r_fin = qutip.nm_mcsolve(Hn, psin, tln, ops_rates, e_ops=[qutip.sigmaz()], ntraj=12, seeds=4321, options=dict(base_o, store_states=False, store_final_state=True))
                    r_all = qutip.nm_mcsolve(Hn, psin, tln, ops_rates, e_ops=[qutip.sigmaz()], ntraj=12, seeds=4321, options=dict(base_o, store_states=True))
            rep.evaluations += 1
            rep.count("nm-improved-sampling-final")
            fs = r_fin.average_final_state
            dfin = (fs - r_all.average_states[-1]).norm()
            if dfin > 1e-9:
                v("nm-improved-sampling:final-state", f"nm_mcsolve with improved sampling (keep_runs_results={keep}): the averaged final state differs from the last averaged state of the same-seed run by {dfin:.2e}", {"keep": keep})
            if abs(fs.tr() - np.asarray(r_fin.average_trace)[-1]) > 1e-9:
                v("nm-improved-sampling:final-trace", f"nm_mcsolve with improved sampling (keep_runs_results={keep}): trace of the averaged final state {fs.tr()} is not the averaged trace {np.asarray(r_fin.average_trace)[-1]}", {"keep": keep})
            ez = float(np.real(qutip.expect(qutip.sigmaz(), fs)))
            if abs(ez - float(np.real(r_fin.average_expect[0][-1]))) > 1e-9:
                v("nm-improved-sampling:final-expect", f"nm_mcsolve with improved sampling (keep_runs_results={keep}): <sz> of the averaged final state {ez} is not the last averaged expectation value {r_fin.average_expect[0][-1]}", {"keep": keep})
        except core.CaseTimeout:
            raise
        except Exception as e:
            v("nm-improved-sampling:raises", f"{type(e).__name__}: {e}"[:200])
    # ------------------------------------------------------------------ Liouvillian form, density-matrix and mixed initial states
    other_forms(rep, rng, tier, v)
    # ------------------------------------------------------------------ non-Markovian: arguments at construction or at run time
    def rate1(t, amp=0.0):
        return 0.4 + amp * np.sin(5 * t)
    for amp in (0.3, 2.5):
        H = 0.5 * qutip.sigmaz()
        tl = np.linspace(0, 1.0, 6)
        psi0 = (qutip.basis(2, 0) + qutip.basis(2, 1)).unit()
        o = {"progress_bar": "", "keep_runs_results": True, "store_states": True}
        try:
            with warnings.catch_warnings():
                warnings.simplefilter("ignore")
                sa = qutip.NonMarkovianMCSolver(H, [(qutip.sigmam(), qutip.coefficient(rate1, args={"amp": 0.0}))], options=o)
                ra = sa.run(psi0, tl, ntraj=4, seeds=[1, 2, 3, 4], args={"amp": amp})
                sb = qutip.NonMarkovianMCSolver(H, [(qutip.sigmam(), qutip.coefficient(rate1, args={"amp": amp}))], options=o)
                rb = sb.run(psi0, tl, ntraj=4, seeds=[1, 2, 3, 4])
                ra2 = sa.run(psi0, tl, ntraj=4, seeds=[1, 2, 3, 4], args={"amp": amp})
                rc = sa.run(psi0, tl, ntraj=4, seeds=[1, 2, 3, 4], args={"amp": -0.5 * amp})
                rcf = qutip.NonMarkovianMCSolver(H, [(qutip.sigmam(), qutip.coefficient(rate1, args={"amp": -0.5 * amp}))], options=o).run(psi0, tl, ntraj=4, seeds=[1, 2, 3, 4])
                ra3 = sa.run(psi0, tl, ntraj=4, seeds=[1, 2, 3, 4], args={"amp": amp})
        except Exception as e:
            v("nm-raises", f"NonMarkovianMCSolver: {type(e).__name__}: {e}"[:200])
            continue
        rep.evaluations += 1
        rep.count("nm-args")
        for name, other in (("run-time args vs construction args", rb), ("second run with the same args", ra2), ("same args again after a run with other args", ra3)):
            dtr = np.abs(np.asarray(ra.runs_trace) - np.asarray(other.runs_trace)).max()
            dst = max(np.abs(x.full() - y.full()).max() for k in range(4) for x, y in zip(ra.runs_states[k], other.runs_states[k]))
            if dtr > 1e-8 or dst > 1e-8:
                v(f"nm-args:{'construction' if other is rb else 'repeat' if other is ra2 else 'after-other-args'}", f"nm_mcsolve (amp={amp}), {name}: trace weights differ by {dtr:.2e}, states by {dst:.2e}", {"amp": amp})
        dtr = np.abs(np.asarray(rc.runs_trace) - np.asarray(rcf.runs_trace)).max()
        dst = max(np.abs(x.full() - y.full()).max() for k in range(4) for x, y in zip(rc.runs_states[k], rcf.runs_states[k]))
        if dtr > 1e-8 or dst > 1e-8:
            v("nm-args:other-args-on-a-used-solver", f"nm_mcsolve: a run with amp={-0.5 * amp} on a solver that had run with amp={amp} differs from a fresh solver: trace weights by {dtr:.2e}, states by {dst:.2e}", {"amp": amp})
    # ------------------------------------------------------------------ non-Markovian: the operator set the solver works with is complete
    # (sum of L+ L proportional to the identity) also when the given operators have a non-diagonal sum, and every operator is as given
    for trial in range(4 if tier == "quick" else 20):
        dn = int(rng.choice([2, 3]))
        given = [qutip.Qobj(rng.standard_normal((dn, dn)) + 1j * rng.standard_normal((dn, dn))) * 0.7 for _ in range(int(rng.integers(1, 3)))]
        if trial == 0:
            dn, given = 2, [qutip.sigmam() + 0.6 * qutip.sigmaz()]
        try:
            with warnings.catch_warnings():
                warnings.simplefilter("ignore")
                sn = qutip.NonMarkovianMCSolver(qutip.rand_herm(dn, seed=int(rng.integers(1 << 30))), [(g_, qutip.coefficient(lambda t: 0.3 - 0.5 * np.sin(t))) for g_ in given], options={"progress_bar": ""})
            tot = sum((L.dag() * L for L in sn.ops)).full()
        except Exception as e:
            v("nm-completeness:raises", f"{type(e).__name__}: {e}"[:200])
            continue
        rep.evaluations += 1
        rep.count("nm-completeness")
        a_ = np.trace(tot) / dn
        if np.abs(tot - a_ * np.eye(dn)).max() > 1e-8 * max(1.0, abs(a_)) or abs(np.imag(a_)) > 1e-10:
            v("nm-completeness", f"NonMarkovianMCSolver: the sum of L+ L over the solver's operators is not proportional to the identity (deviation {np.abs(tot - a_ * np.eye(dn)).max():.2e}) for {len(given)} given operator(s) of dimension {dn}", {"ops": [str(g_.full().tolist()) for g_ in given]})
        if any((a - b).norm() > 1e-12 for a, b in zip(sn.ops, given)):
            v("nm-completeness:given-ops", "NonMarkovianMCSolver.ops does not start with the operators it was given")
    # ------------------------------------------------------------------ non-Markovian: the step interface returns state x trace weight,
    # whatever intermediate times were asked for, and agrees with run() for the same seed
    def rate_s(t):
        return 0.5 - 0.9 * np.sin(2.0 * t) ** 2
    Hs_ = 0.5 * qutip.sigmax()
    ops_s = [(qutip.sigmam(), qutip.coefficient(rate_s)), (qutip.sigmap(), 0.15)]
    psis = (qutip.basis(2, 0) + 0.3 * qutip.basis(2, 1)).unit()
    tls = np.linspace(0, 2.0, 9)
    # the Verner integrators with their option `interpolate` off: the jump search still gets the state at the time it asks
    # for (same seeds, same jumps as with the option on, up to the search tolerance)
    for method in ("vern7", "vern9"):
        try:
            with warnings.catch_warnings():
                warnings.simplefilter("ignore")
                with core.time_limit(300):
                    Hv_ = 0.5 * qutip.sigmax()
                    cv_ = [0.8 * qutip.sigmam(), 0.3 * qutip.sigmaz()]
                    tv_ = np.linspace(0, 3.0, 7)
                    outs_ = {}
                    for itp_ in (True, False):
                        ov_ = {"method": method, "interpolate": itp_, "progress_bar": "", "keep_runs_results": True, "norm_steps": 60, "atol": 1e-10, "rtol": 1e-8}
                        outs_[itp_] = qutip.mcsolve(Hv_, qutip.basis(2, 0), tv_, cv_, e_ops=[qutip.sigmaz()], ntraj=4, seeds=77, options=ov_)
            rep.evaluations += 1
            rep.count("verner-interpolate-off")
            for j_ in range(4):
                ca_, cb_ = outs_[True].col_times[j_], outs_[False].col_times[j_]
                wa_, wb_ = outs_[True].col_which[j_], outs_[False].col_which[j_]
                if list(wa_) != list(wb_) or (len(ca_) and np.abs(np.array(ca_) - np.array(cb_)).max() > 5e-3):
                    v(f"interpolate-off:{method}", f"mcsolve({method}) with interpolate=False: trajectory {j_} of the same seed has jumps {[round(float(x), 4) for x in cb_]} (channels {list(wb_)}), with interpolate=True {[round(float(x), 4) for x in ca_]} (channels {list(wa_)})", {"method": method})
                    break
        except core.CaseTimeout:
            raise
        except Exception as e:
            v(f"interpolate-off-raises:{method}", f"mcsolve({method}, interpolate=False): {type(e).__name__}: {e}"[:240], {"method": method})
    # per-trajectory records stay aligned: entry i of runs_trace belongs to trajectory i, with and without improved sampling
    for imp_ in (False, True):
        try:
            with warnings.catch_warnings():
                warnings.simplefilter("ignore")
                with core.time_limit(300):
                    sal = qutip.NonMarkovianMCSolver(Hs_, ops_s, options={"progress_bar": "", "keep_runs_results": True, "store_states": True, "improved_sampling": imp_})
                    ral = sal.run(psis, tls, ntraj=5, seeds=31)
            rep.evaluations += 1
            rep.count("nm-records-aligned")
            ntr_ = len(ral.trajectories)
            lens_ = {"runs_trace": len(ral.runs_trace), "runs_states": len(ral.runs_states), "collapse": len(ral.collapse), "seeds-minus-deterministic": ntr_}
            if len(set(lens_.values())) != 1 or any(np.abs(np.asarray(ral.runs_trace[i_]) - np.asarray(ral.trajectories[i_].trace)).max() > 0 for i_ in range(min(ntr_, len(ral.runs_trace)))):
                v(f"nm-records-aligned:improved={imp_}", f"nm_mcsolve (improved_sampling={imp_}, keep_runs_results): the per-trajectory records have lengths {lens_} for {ntr_} kept trajectories, or runs_trace[i] is not the trace of trajectories[i]", {"improved_sampling": imp_})
        except core.CaseTimeout:
            raise
        except Exception as e:
            v("nm-records-raises", f"{type(e).__name__}: {e}"[:240])
    for sd in (11, 12, 13):
        try:
            with warnings.catch_warnings():
                warnings.simplefilter("ignore")
                with core.time_limit(300):
                    sol = qutip.NonMarkovianMCSolver(Hs_, ops_s, options={"progress_bar": "", "keep_runs_results": True, "store_states": True, "atol": 1e-11, "rtol": 1e-10,
                                                                          "norm_tol": 1e-9, "norm_t_tol": 1e-9, "norm_steps": 30, "nsteps": 20000})
                    rr = sol.run(psis, tls, ntraj=1, seeds=sd)
                    ref = [st * tr for st, tr in zip([x if x.isoper else x.proj() for x in rr.runs_states[0]], np.asarray(rr.runs_trace)[0])]
                    out = {}
                    for name, idx in (("every", list(range(1, len(tls)))), ("coarse", [3, 8]), ("final-only", [8]), ("uneven", [1, 2, 6, 8])):
                        sol.start(psis, tls[0], seed=sd)
                        out[name] = {i: sol.step(tls[i]) for i in idx}
        except core.CaseTimeout:
            raise
        except Exception as e:
            v("nm-step:raises", f"{type(e).__name__}: {e}"[:200])
            continue
        rep.evaluations += 1
        rep.count("nm-step")
        for name, got in out.items():
            for i, st in got.items():
                dd = np.abs(st.full() - ref[i].full()).max()
                if dd > 1e-4:
                    v(f"nm-step:{name}", f"NonMarkovianMCSolver.step ({name} steps, seed {sd}) at t={tls[i]:.3g}: state x trace weight differs from run() with the same seed by {dd:.2e} (trace {st.tr():.6g} against {ref[i].tr():.6g})", {"seed": sd, "steps": name, "index": i})
                    break
    for sig, (what, data) in viol.items():
        rep.violation(core.Violation("C16:" + sig, what, data))
    if (ndis or not proved) and not rep.violations:
        rep.violation(core.Violation("C16:unverified", "model/proof no longer matches the code and no failing input was found",
                                     {"broken": rep.broken}, failing_input_found=False))
    return rep.finish()


if __name__ == "__main__":
    core.main(run, PID)
