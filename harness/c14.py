"""C14 — the parallel map delivers every task result exactly once under any schedule.

Correspondence: the real `_generic_pmap` / `serial_map` are driven by a deterministic
fake executor (real concurrent.futures.Future objects, patched `wait` and clock)
following a schedule; the Lean model Qv.Model.C14 runs the same schedule; traces and
outcomes are compared.  The property's own oracle (independent of the model) is also
evaluated on every real trace; it is the failing-input search.
"""
import concurrent.futures
import itertools
import json
import math
import os
import sys
import types

import numpy as np

sys.path.insert(0, os.path.dirname(os.path.abspath(__file__)))
import core

PID = "C14"


class TaskError(Exception):
    pass


class Livelock(Exception):
    pass


# what a failing task raises: the property is about every exception a task can raise, also the ones the executor
# machinery itself uses for its own purposes
EXC = {"task": TaskError, "timeout": TimeoutError, "cancelled": concurrent.futures.CancelledError, "value": ValueError}
TASK_EXCS = tuple(EXC.values())


class FakeWorld:
    """Deterministic environment: clock + schedule + the in-flight futures."""

    def __init__(self, cfg):
        self.cfg = cfg
        self.clock = 0
        self.sched = [dict(s) for s in cfg["sched"]]
        self.futures = []
        self.trace = []
        self.max_inflight = 0
        self.time_calls = 0

    def pop(self, dflt):
        if self.sched:
            return self.sched.pop(0)
        return dflt

    def running(self, among=None):
        fs = self.futures if among is None else among
        return sorted([f for f in fs if not f.done()], key=lambda f: f._i)

    def complete(self, f):
        i = f._i
        if i in self.cfg["raises"]:
            self.trace.append(["E", i])
            f.set_exception(EXC[self.cfg.get("exc", "task")](i))
        else:
            self.trace.append(["D", i])
            self.current = i           # the reducer runs inside the completion callback: it is told whose result this is
            f.set_result(None if i in self.cfg.get("nones", []) else ("r", f._value))

    def apply(self, step, among=None):
        for r in step["comp"]:
            run = self.running(among)
            if run:
                self.complete(run[r % len(run)])
        self.clock += step["tick"]

    # -- replacements
    def time(self):
        self.time_calls += 1
        if self.time_calls > 200 * (self.cfg["n"] + 5):
            raise Livelock(f"clock read {self.time_calls} times: the submission loop does not make progress")
        return 1000 + self.clock      # wall clocks are never near zero (serial_map uses end_time = 0 as a flag)

    def wait(self, fs, timeout=None, return_when=concurrent.futures.ALL_COMPLETED):
        fs = set(fs)
        lst = sorted(fs, key=lambda f: f._i)
        if return_when == concurrent.futures.FIRST_COMPLETED:
            self.trace.append(["W1"])
            self.apply(self.pop({"comp": [0], "tick": 0}), lst)
            if not any(f.done() for f in lst):
                if timeout is not None and timeout != math.inf:
                    self.clock = max(self.clock, self.cfg["timeout"])
                else:
                    run = self.running(lst)
                    if run:
                        self.complete(run[0])
        else:
            self.trace.append(["WA"])
            self.apply(self.pop({"comp": [], "tick": 0}), lst)
            expired = self.cfg["timeout"] is not None and self.clock >= self.cfg["timeout"]
            if not expired:
                for f in self.running(lst):
                    self.complete(f)
        done = {f for f in fs if f.done()}
        return done, fs - done


class FakeExecutor:
    def __init__(self, world):
        self.w = world

    def shutdown(self, *a, **kw):
        # ProcessPoolExecutor.shutdown() waits for the tasks that are running
        for f in self.w.running():
            self.w.complete(f)

    def __enter__(self):
        return self

    def __exit__(self, *a):
        return False

    def submit(self, task, *args, **kw):
        w = self.w
        f = concurrent.futures.Future()
        f._value = args[0]
        f._task = task
        # `_i` is set by the caller just after submit; futures are completed only at later yields
        w.futures.append(f)
        w.pending_submit = f
        return _SubmitProxy.wrap(f, w)


class _SubmitProxy:
    """The code sets `future._i = i` and registers the callback right after submit; the yield that
    belongs to this submission happens once both are done (on add_done_callback)."""

    @staticmethod
    def wrap(f, w):
        orig = f.add_done_callback

        def add_done_callback(cb):
            orig(cb)
            w.trace.append(["S", f._i])
            inflight = len(w.running())
            w.max_inflight = max(w.max_inflight, inflight)
            w.apply(w.pop({"comp": [], "tick": 0}))
        f.add_done_callback = add_done_callback
        return f


def run_real_pmap(cfg):
    """Run the real _generic_pmap under the fake world.  Returns trace/outcome like the model."""
    import qutip.solver.parallel as par
    w = FakeWorld(cfg)
    reduced = []

    def reduce_func(res):
        idx = res[1] if res is not None else w.current      # a task may legitimately return None
        reduced.append(idx)
        w.trace.append(["R", idx])
        if cfg["stop_after"] is None:
            return None
        return _signal(cfg, len(reduced))

    def extract_result(future):
        e = future.exception()
        if e is not None:
            return None, e
        return future.result(), None

    def shutdown(executor, active):
        run = w.running()
        if cfg["drain"]:
            for f in run:
                w.complete(f)
        else:
            for f in run:
                w.trace.append(["X", f._i])
                f.cancel()

    fake_time = types.SimpleNamespace(time=w.time)
    fake_cf = types.SimpleNamespace(
        wait=w.wait, FIRST_COMPLETED=concurrent.futures.FIRST_COMPLETED,
        ALL_COMPLETED=concurrent.futures.ALL_COMPLETED, Future=concurrent.futures.Future,
        ProcessPoolExecutor=concurrent.futures.ProcessPoolExecutor)
    fake_conc = types.SimpleNamespace(futures=fake_cf)
    saved = (par.time, par.concurrent)
    par.time, par.concurrent = fake_time, fake_conc
    timeout = math.inf if cfg["timeout"] is None else cfg["timeout"]
    values = list(range(cfg["n"]))
    try:
        try:
            if cfg.get("frontend"):
                # through parallel_map itself: its own executor set-up, result extraction and shutdown
                fake_cf.ProcessPoolExecutor = lambda *a, **kw: FakeExecutor(w)
                res = par.parallel_map(_task, values, reduce_func=reduce_func if cfg["reducer"] else None,
                                       map_kw={"timeout": timeout, "fail_fast": cfg["fail_fast"], "num_cpus": cfg["workers"]}, progress_bar="")
            else:
                res = par._generic_pmap(
                    _task, values, (), {}, reduce_func if cfg["reducer"] else None,
                    timeout, cfg["fail_fast"], cfg["workers"], "", {},
                    lambda: FakeExecutor(w), extract_result, shutdown)
            out = {"kind": "return", "results": _res(res)}
        except par.MapExceptions as e:
            out = {"kind": "map_exceptions", "errors": list(e.errors.keys()), "results": _res(e.results)}
            for k, v in e.errors.items():
                if not (isinstance(v, EXC[cfg.get("exc", "task")]) and v.args[0] == k):
                    out["bad_error_index"] = [k, repr(v)]
        except TASK_EXCS as e:
            out = {"kind": "raise", "index": e.args[0]}
    finally:
        par.time, par.concurrent = saved
    return {"trace": w.trace, "outcome": out, "terminated": True}, w


def _signal(cfg, nred):
    """What the reducer returns after its nred-th result.  'monotone': tasks left (stays <= 0 once reached);
    'none' / 'positive': the completion signal (a value <= 0) is given once, later calls return None ("no estimate")
    or a positive estimate again -- completion, once signalled, cannot be taken back."""
    mode = cfg.get("after_stop", "monotone")
    if mode != "monotone" and nred > max(cfg["stop_after"], 1):
        return None if mode == "none" else 3
    return cfg["stop_after"] - nred


def _argtask(v, a, b, c=0):
    return 100 * v + 10 * a + b + 1000 * c


def _task(v):
    raise RuntimeError("tasks are never executed by the fake executor")


def _res(res):
    if res is None:
        return None
    out = []
    for r in res:
        if r is None:
            out.append(None)
        elif isinstance(r, tuple) and r[0] == "r":
            out.append(r[1])
        else:
            out.append("?" + repr(r))
    return out


def run_real_serial(cfg):
    import qutip.solver.parallel as par
    clock = {"t": 0}
    sched = [dict(s) for s in cfg["sched"]]
    ran, reduced = [], []

    def task(v):
        ran.append(v)
        if sched:
            clock["t"] += sched.pop(0)["tick"]
        if v in cfg["raises"]:
            raise TaskError(v)
        return None if v in cfg.get("nones", []) else ("r", v)

    def reduce_func(res):
        reduced.append(res[1] if res is not None else ran[-1])
        if cfg["stop_after"] is None:
            return None
        return _signal(cfg, len(reduced))

    saved = par.time
    par.time = types.SimpleNamespace(time=lambda: 1000 + clock["t"])
    try:
        try:
            res = par.serial_map(task, list(range(cfg["n"])), reduce_func=reduce_func if cfg["reducer"] else None,
                                 map_kw={"timeout": math.inf if cfg["timeout"] is None else cfg["timeout"],
                                         "fail_fast": cfg["fail_fast"]})
            out = {"kind": "return", "results": _res(res)}
        except par.MapExceptions as e:
            out = {"kind": "map_exceptions", "errors": list(e.errors.keys()), "results": _res(e.results)}
        except TaskError as e:
            out = {"kind": "raise", "index": e.args[0]}
    finally:
        par.time = saved
    return {"ran": ran, "reduced": reduced, "outcome": out}


# ---------------------------------------------------------------------------
# the property's own oracle on a real trace (independent of the Lean model)
def oracle_pmap(cfg, real):
    tr, out = real["trace"], real["outcome"]
    n, W = cfg["n"], cfg["workers"]
    problems = []
    submitted = [e[1] for e in tr if e[0] == "S"]
    completed_ok = [e[1] for e in tr if e[0] == "D"]
    completed_err = [e[1] for e in tr if e[0] == "E"]
    reduced = [e[1] for e in tr if e[0] == "R"]
    if submitted != list(range(len(submitted))):
        problems.append(("submission-order", f"submitted {submitted}"))
    # in flight bound
    running = set()
    stop_at = None
    nred = 0
    after_stop = 0
    clock_expired = False
    for e in tr:
        if e[0] == "S":
            running.add(e[1])
            if len(running) > W:
                problems.append(("inflight", f"{len(running)} tasks in flight with {W} workers"))
            if stop_at is not None:
                after_stop += 1
        elif e[0] in ("D", "E", "X"):
            running.discard(e[1])
            if e[0] == "E" and cfg["fail_fast"] and stop_at is None:
                stop_at = e
        elif e[0] == "R":
            nred += 1
            if cfg["stop_after"] is not None and nred >= cfg["stop_after"] and stop_at is None:
                stop_at = e
    if after_stop > W:
        problems.append(("post-stop-submissions", f"{after_stop} submissions after the stop signal, {W} workers"))
    if cfg["reducer"]:
        if sorted(reduced) != sorted(completed_ok) or len(set(reduced)) != len(reduced):
            problems.append(("reducer-exactly-once", f"completed {completed_ok} reduced {reduced}"))
        if out.get("results") is not None:
            problems.append(("reducer-results", "results list returned although a reducer was given"))
    else:
        res = out.get("results")
        if out["kind"] != "raise":
            want = [i if i in completed_ok else None for i in range(n)]
            if res != want:
                problems.append(("positional", f"results {res} expected {want}"))
    if completed_err:
        if out["kind"] == "return":
            problems.append(("error-dropped", f"tasks {completed_err} raised but the map returned normally"))
        elif out["kind"] == "raise":
            if out["index"] not in completed_err or not cfg["fail_fast"]:
                problems.append(("error-wrong", f"raised {out['index']} errors {completed_err}"))
        else:
            if sorted(out["errors"]) != sorted(completed_err) or cfg["fail_fast"]:
                problems.append(("error-index", f"errors reported {out['errors']} raised {completed_err}"))
            if "bad_error_index" in out:
                problems.append(("error-index", f"error stored under wrong index {out['bad_error_index']}"))
    elif out["kind"] != "return":
        problems.append(("spurious-error", f"no task raised but outcome {out['kind']}"))
    never_stops = (cfg["timeout"] is None and not (cfg["raises"] and cfg["fail_fast"])
                   and (cfg["stop_after"] is None or not cfg["reducer"]))
    if never_stops and sorted(completed_ok + completed_err) != list(range(n)):
        problems.append(("all-tasks", f"nothing stops the map but only {sorted(completed_ok + completed_err)} of {n} ran"))
    return problems


def oracle_serial(cfg, real):
    problems = []
    out = real["outcome"]
    ran = real["ran"]
    if ran != list(range(len(ran))):
        problems.append(("serial-order", f"ran {ran}"))
    ok = [j for j in ran if j not in cfg["raises"]]
    errs = [j for j in ran if j in cfg["raises"]]
    if cfg["reducer"]:
        if real["reduced"] != ok:
            problems.append(("serial-reducer-exactly-once", f"ran ok {ok} reduced {real['reduced']}"))
        if cfg["stop_after"] is not None and len(real["reduced"]) > max(cfg["stop_after"], 1):
            problems.append(("serial-post-stop", f"{len(real['reduced'])} reduced with stop_after {cfg['stop_after']}"))
    elif out["kind"] != "raise":
        want = [i if i in ok else None for i in range(cfg["n"])]
        if out["results"] != want:
            problems.append(("serial-positional", f"results {out['results']} expected {want}"))
    if errs:
        if out["kind"] == "return":
            problems.append(("serial-error-dropped", f"{errs} raised, returned normally"))
        elif out["kind"] == "raise" and (not cfg["fail_fast"] or out["index"] != errs[0]):
            problems.append(("serial-error-wrong", f"raised {out['index']}, errors {errs}"))
        elif out["kind"] == "map_exceptions" and (cfg["fail_fast"] or out["errors"] != errs):
            problems.append(("serial-error-index", f"reported {out['errors']} raised {errs}"))
    elif out["kind"] != "return":
        problems.append(("serial-spurious-error", out["kind"]))
    never_stops = (cfg["timeout"] is None and not (cfg["raises"] and cfg["fail_fast"])
                   and (cfg["stop_after"] is None or not cfg["reducer"]))
    if never_stops and ran != list(range(cfg["n"])):
        problems.append(("serial-all-tasks", f"ran {ran} of {cfg['n']}"))
    return problems


# ---------------------------------------------------------------------------
def gen_cfg(rng, tier):
    n = int(rng.integers(0, 9 if tier == "quick" else 14))
    workers = int(rng.integers(1, 5))
    k = int(rng.choice([0, 0, 1, 2, 3]))
    raises = sorted(set(int(x) for x in rng.integers(0, max(n, 1), size=k))) if n else []
    reducer = bool(rng.integers(0, 2))
    stop_after = int(rng.integers(0, n + 2)) if (reducer and rng.random() < 0.6) else None
    timeout = int(rng.integers(0, 12)) if rng.random() < 0.35 else None
    nsteps = int(rng.integers(0, 3 * n + 4))
    sched = []
    for _ in range(nsteps):
        m = int(rng.choice([0, 0, 1, 1, 1, 2, 3]))
        sched.append({"comp": [int(x) for x in rng.integers(0, 6, size=m)],
                      "tick": int(rng.choice([0, 0, 0, 1, 1, 2, 5])) if timeout is not None else int(rng.choice([0, 1]))})
    cfg = {"n": n, "workers": workers, "raises": raises, "fail_fast": bool(rng.integers(0, 2)),
           "reducer": reducer, "stop_after": stop_after, "timeout": timeout,
           "drain": bool(rng.random() < 0.7), "sched": sched}
    cfg["exc"] = str(rng.choice(["task", "task", "timeout", "cancelled", "value"]))
    # with a reducer, some tasks return None (a legitimate result that the reducer must still be handed)
    cfg["nones"] = sorted(set(int(x) for x in rng.integers(0, max(n, 1), size=int(rng.choice([0, 0, 1, 3]))))) if (reducer and n) else []
    cfg["frontend"] = bool(cfg["drain"] and rng.random() < 0.5)
    cfg["after_stop"] = str(rng.choice(["monotone", "none", "positive"])) if stop_after is not None else "monotone"
    return cfg


def enumerate_small():
    """Exhaustive small space for the thorough tier: <= 4 tasks x <= 3 workers x schedules."""
    for n in range(0, 5):
        for workers in (1, 2, 3):
            for raises in ([], [0], [n - 1] if n else [], [1, 2] if n > 2 else []):
                for ff in (False, True):
                    for reducer, stop, after in ((False, None, "monotone"), (True, None, "monotone"), (True, 1, "monotone"),
                                                 (True, 2, "monotone"), (True, 1, "none"), (True, 2, "positive")):
                        for comps in itertools.product(([], [0], [1], [1, 0]), repeat=min(n, 3)):
                            yield {"n": n, "workers": workers, "raises": sorted(set(raises)), "fail_fast": ff,
                                   "reducer": reducer, "stop_after": stop, "timeout": None, "drain": True,
                                   "after_stop": after,
                                   "sched": [{"comp": list(c), "tick": 0} for c in comps]}


def nontrivial(cfg):
    return cfg["n"] >= 2 and cfg["workers"] >= 1 and (cfg["workers"] < cfg["n"] or cfg["raises"] or cfg["reducer"])


def corpus_cases():
    d = os.path.join(core.VERIF, "corpus", PID)
    out = []
    if os.path.isdir(d):
        for f in sorted(os.listdir(d)):
            if f.endswith(".json"):
                out.append(json.load(open(os.path.join(d, f)))["case"])
    return out


def shrink(cfg, still_bad):
    """Greedy shrink of a failing configuration."""
    cur = dict(cfg)
    changed = True
    while changed:
        changed = False
        cands = []
        if cur["sched"]:
            cands.append({**cur, "sched": cur["sched"][:-1]})
            cands.append({**cur, "sched": cur["sched"][1:]})
        if cur["n"] > 0:
            cands.append({**cur, "n": cur["n"] - 1, "raises": [r for r in cur["raises"] if r < cur["n"] - 1]})
        if cur["raises"]:
            cands.append({**cur, "raises": cur["raises"][1:]})
        if cur["timeout"] is not None:
            cands.append({**cur, "timeout": None})
        if cur["workers"] > 1:
            cands.append({**cur, "workers": cur["workers"] - 1})
        for c in cands:
            try:
                if still_bad(c):
                    cur, changed = c, True
                    break
            except Exception:
                pass
    return cur


def run(tier, seed, replay):
    rep = core.Report(PID, tier, seed)
    rep.rule = ("configurations (tasks, workers, raising subset, fail_fast, reducer/stop point, timeout, "
                "drain/cancel shutdown) x schedules (which in-flight task completes at which yield point, clock "
                "ticks); non-trivial = at least 2 tasks and (fewer workers than tasks or an error or a reducer)")
    rep.assumptions = [
        "concurrent.futures is replaced by a deterministic fake executor (real Future objects, patched wait and clock);"
        " completions occur only at yield points (wait / submit)",
        "loky / mpi back-ends share _generic_pmap and are not run",
    ]
    core.build_repo()
    proved = core.prove(rep, ["Qv.Model.C14", "Qv.Proofs.C14", "Qv.Props.C14"], "Qv.Props.C14")
    if tier == "thorough":
        core.leanchecker(rep, ["Qv.Props.C14"])
    rng = np.random.default_rng(seed)
    if replay:
        cases = [json.load(open(replay))["replay"]["case"]]
    else:
        cases = corpus_cases()
        ncases = 1500 if tier == "quick" else 12000
        cases += [gen_cfg(rng, tier) for _ in range(ncases)]
        if tier == "thorough":
            cases += list(enumerate_small())
    lines = []
    for c in cases:
        lines.append("C14.pmap " + json.dumps(c))
        lines.append("C14.serial " + json.dumps(c))
    model = core.run_driver(lines)
    disagreements = []
    for k, c in enumerate(cases):
        mp, ms = model[2 * k], model[2 * k + 1]
        try:
            with core.time_limit(20):
                real, _w = run_real_pmap(c)
        except Exception as e:   # the real code blew up under a legal schedule
            real = {"trace": [], "outcome": {"kind": "crash", "error": repr(e)}, "terminated": False}
        try:
            with core.time_limit(20):
                sreal = run_real_serial(c)
        except Exception as e:
            sreal = {"ran": [], "reduced": [], "outcome": {"kind": "crash", "error": repr(e)}}
        rep.case(c, nontrivial(c))
        rep.count("n=%d" % c["n"]); rep.count("workers=%d" % c["workers"])
        rep.count("outcome=" + real["outcome"]["kind"])
        rep.count("reducer" if c["reducer"] else "no-reducer")
        if c["timeout"] is not None:
            rep.count("with-timeout")
        probs = []
        if real["outcome"]["kind"] == "crash":
            probs.append(("crash", real["outcome"]["error"]))
        else:
            probs += oracle_pmap(c, real)
        if sreal["outcome"]["kind"] == "crash":
            probs.append(("serial-crash", sreal["outcome"]["error"]))
        else:
            probs += oracle_serial(c, sreal)
        for sig, what in probs:
            def bad(cc, sig=sig):
                r, _ = run_real_pmap(cc)
                return any(s == sig for s, _ in oracle_pmap(cc, r) + oracle_serial(cc, run_real_serial(cc)))
            small = shrink(c, bad) if not sig.endswith("crash") else c
            rep.violation(core.Violation("C14:" + sig, what, {"case": small, "original": c, "real": real, "serial": sreal}))
        if core.canon(mp) != core.canon(real):
            disagreements.append(("pmap", c, mp, real))
        if core.canon(ms) != core.canon(sreal):
            disagreements.append(("serial", c, ms, sreal))
    # the two maps are interchangeable also in how extra arguments reach the task: given as a tuple, a list (the documented
    # form) or an array, together with keyword arguments, task(value, *task_args, **task_kwargs) is what runs
    import qutip.solver.parallel as _par
    for form, targs in (("tuple", (2, 3)), ("list", [2, 3]), ("array", np.array([2, 3])), ("empty list", [])):
        want_ = [_argtask(v_, *list(targs), c=5) if len(targs) else None for v_ in range(4)]
        for mname, mfn in (("serial_map", _par.serial_map), ("parallel_map", _par.parallel_map)):
            rep.evaluations += 1
            rep.count("task-args")
            if not len(targs):
                continue
            try:
                got_ = mfn(_argtask, list(range(4)), task_args=targs, task_kwargs={"c": 5}, map_kw={"num_cpus": 2})
                got_ = [int(x_) for x_ in got_]
            except Exception as e:
                rep.violation(core.Violation(f"C14:task-args:{mname}", f"{mname} with task_args given as a {form} raises {type(e).__name__}: {e}"[:240], {"form": form, "map": mname}))
                continue
            if got_ != want_:
                rep.violation(core.Violation(f"C14:task-args:{mname}", f"{mname} with task_args given as a {form} returns {got_}, task(value, *task_args, **task_kwargs) gives {want_}", {"form": form, "map": mname}))
    rep.notes["correspondence_disagreements"] = len(disagreements)
    if disagreements:
        kind, c, m, r = disagreements[0]
        rep.broken.append({"kind": "correspondence", "which": "C14." + kind, "count": len(disagreements),
                           "first": {"case": c, "model": m, "impl": r}})
    if (disagreements or not proved) and not rep.violations:
        # the oracle ran on every case above (that is the failing-input search) and found nothing
        rep.violation(core.Violation(
            "C14:unverified", "model/proof no longer matches the code and no failing input was found",
            {"broken": rep.broken}, failing_input_found=False))
    return rep.finish()


if __name__ == "__main__":
    core.main(run, PID)
