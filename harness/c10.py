"""C10 — all deterministic evolution routes agree with the exact solution.

Tie to the source (translator): the Butcher tableaux registered in /repo are regenerated as exact
rationals into lean/Qv/Gen/Tableaux.lean with kernel-decided obligations: stability polynomial within
1e-14 of the exponential series up to the order of the method, row sums equal nodes, error weights sum
to zero.  Correspondence: single steps of the real `Explicit_RungeKutta` (euler, rk4, vern7, vern9) on
`y' = lambda y` with dyadic data against the Lean stepper in exact complex-rational arithmetic.
Oracle (relational, on the real solvers): for random small systems every method x storage format x
state form x time list agrees with the matrix exponential (time-independent) and with the other routes
(time-dependent: methods, H + c_ops vs Liouvillian, ket vs density matrix vs operator-ket, propagator
applied to the state, Krylov, diagonalisation, Floquet, Bloch-Redfield without bath coupling); norm,
trace, Hermiticity, positivity at every stored time; solver objects reused for another state.
"""
import json
import os
import sys
import warnings
from fractions import Fraction

import numpy as np

sys.path.insert(0, os.path.dirname(os.path.abspath(__file__)))
import core
import translate_tableaux as tt

PID = "C10"
TIGHT = {"atol": 1e-10, "rtol": 1e-8, "nsteps": 100000, "progress_bar": ""}
TOL = 2e-6


def fr(x):
    f = Fraction(float(x))
    return str(f.numerator) if f.denominator == 1 else f"{f.numerator}/{f.denominator}"


def f_cos(t, w=1.0):
    return np.cos(w * t)


def _c10_pulse(t, tc):
    """Gaussian pulse of area pi/2 and width 0.002 centred at tc"""
    return (np.pi / 2) / (0.002 * np.sqrt(2 * np.pi)) * np.exp(-0.5 * ((t - tc) / 0.002) ** 2)


def run(tier, seed, replay):
    rep = core.Report(PID, tier, seed)
    rep.rule = ("tableaux: every registered explicit method; single steps: methods x 40 random dyadic (lambda, dt, y); routes: random 2-4 level systems x "
                "8 integration methods x 3 storage formats x 4 state forms x 4 kinds of time list x 3 coefficient kinds; non-trivial = every configuration")
    rep.assumptions = ["solvers are run with atol = 1e-10, rtol = 1e-8; routes must agree to 2e-6 (a factor of about 200 on the requested tolerance over the run lengths used)",
                       "accuracy of adaptive step control and of the SciPy / LAPACK routines is validated, not proved"]
    core.build_repo()
    proved = core.prove(rep, ["Qv.Model.C10", "Qv.Props.C10"], "Qv.Props.C10")
    import qutip
    import scipy.linalg as sla
    from qutip.solver.integrator import explicit_rk as er
    rng = np.random.default_rng(seed)
    viol = {}

    def v(sig, what, data=None):
        if sig not in viol:
            viol[sig] = (what, data or {"what": what})
    # ------------------------------------------------------------------ T3: tableaux and their obligations
    tabs = tt.tableaux()
    core.write_if_changed(os.path.join(core.LEAN, "Qv", "Gen", "Tableaux.lean"), tt.render(tabs))
    omods, nord = tt.render_order(tabs)
    for m, text in omods.items():
        core.write_if_changed(os.path.join(core.LEAN, *m.split(".")) + ".lean", text)
    ok_gen, log = core.lake_build(["Qv.Gen.Tableaux"] + list(omods))
    nobl = sum(2 + (1 if t["e"] else 0) for t in tabs.values()) + nord
    rep.obligations += nobl
    if ok_gen:
        rep.discharged += nobl
        gnames = [f"Qv.Gen.Tableaux.{k}_order_conditions" for k in tabs]
        gax, _ = core.axiom_audit(["Qv.Gen.TreeOrderAll"], gnames)
        rep.axioms.update(gax)
        for n_, a_ in gax.items():
            if a_ is None or not set(a_) <= core.ALLOWED_AXIOMS:
                rep.broken.append({"kind": "axiom", "name": n_, "axioms": a_})
    else:
        failed = sorted(set(__import__("re").findall(r"error: \S*(?:Tableaux|TreeOrder\w*).lean:(\d+)", log)))
        rep.broken.append({"kind": "generated obligations", "module": "Qv.Gen.Tableaux", "log_tail": log[-600:], "lines": failed})
    rep.notes["tableaux"] = {k: {"order": t["order"], "stages": len(t["b"])} for k, t in tabs.items()}
    if tier == "thorough":
        core.leanchecker(rep, ["Qv.Props.C10"] + (["Qv.Gen.Tableaux", "Qv.Gen.TreeOrderAll"] if ok_gen else []))
    # ------------------------------------------------------------------ correspondence: single steps
    lines, expect = [], []
    for name, t in tabs.items():
        tj = {"a": [[fr(x) for x in r] for r in t["a"]], "b": [fr(x) for x in t["b"]], "c": [fr(x) for x in t["c"]], "e": [fr(x) for x in t["e"]], "order": t["order"]}
        for _ in range(10 if tier == "quick" else 60):
            lam = complex(rng.integers(-16, 17) / 16.0, rng.integers(-16, 17) / 16.0)
            dt = float(rng.integers(1, 33) / 64.0)
            y = complex(rng.integers(-8, 9) / 8.0, rng.integers(-8, 9) / 8.0) or 1.0
            A = qutip.QobjEvo(qutip.Qobj([[lam]]))
            try:
                ode = er.Explicit_RungeKutta(A, method=name, first_step=dt, rtol=1e3, atol=1e3, interpolate=False)
                ode.set_initial_value(qutip.data.Dense(np.array([[y]], dtype=complex)), 0.0)
                ode.integrate(dt)
                got = complex(ode.y.to_array()[0, 0])
            except Exception as e:
                v(f"rk-step-raises:{name}", f"{name}: single step raises {type(e).__name__}: {e}"[:200])
                continue
            lines.append("C10.step " + json.dumps({"tab": tj, "lam": [fr(lam.real), fr(lam.imag)], "dt": fr(dt), "y": [fr(y.real), fr(y.imag)]}))
            expect.append((name, got, lam, dt, y))
            rep.case({"step": [name, str(lam), dt]}, True)
            rep.count("step=" + name)
    model = core.run_driver(lines)
    ndis, first = 0, None
    for line, (name, got, lam, dt, y), m in zip(lines, expect, model):
        if isinstance(m, dict) and "error" in m:
            bad = {"model": m}
        else:
            want = complex(float(Fraction(m["y"][0])), float(Fraction(m["y"][1])))
            bad = None if abs(want - got) <= 1e-13 * max(1, abs(want)) else {"method": name, "lam": str(lam), "dt": dt, "y": str(y), "model": str(want), "impl": str(got)}
        if bad:
            ndis += 1
            if first is None:
                first = bad
    # Krylov integrator: vectors built by the Lanczos recursion and the "no step bound" decision, on Hamiltonians with k
    # distinct eigenvalues (the Krylov space of a generic vector closes after k vectors), against Qv.C10.stepUnbounded
    klines, kexp = [], []
    for _ in range(12 if tier == "quick" else 60):
        N_ = int(rng.integers(3, 7))
        k_ = int(rng.integers(1, N_ + 1))
        kd_ = int(rng.integers(1, N_))
        ev_ = np.concatenate([np.arange(1, k_ + 1) * 0.7, rng.choice(np.arange(1, k_ + 1) * 0.7, N_ - k_)])
        Uk_ = qutip.rand_unitary(N_, seed=int(rng.integers(1 << 30)))
        Hk_ = Uk_ * qutip.Qobj(np.diag(ev_)) * Uk_.dag()
        pk_ = qutip.rand_ket(N_, seed=int(rng.integers(1 << 30)))
        try:
            with warnings.catch_warnings():
                warnings.simplefilter("ignore")
                with core.time_limit(120):
                    sk_ = qutip.SESolver(Hk_, options={"method": "krylov", "krylov_dim": kd_, "progress_bar": ""})
                    prepared_unbounded = bool(np.isinf(sk_._integrator._max_step))
                    tri_, _b = sk_._integrator._lanczos_algorithm(pk_.data)
                    sk_.start(pk_, 0.0)
                    set_unbounded = bool(np.isinf(sk_._integrator._max_step))
        except core.CaseTimeout:
            raise
        except Exception as e:
            if isinstance(e, ValueError) and "the error with the minimum step" in str(e):
                rep.count("krylov-decision-refused")      # the integrator declines: this dimension cannot meet the tolerance
                continue
            kexp.append(None)
            klines.append("C10.krylov_decision " + json.dumps({"small": [j >= k_ - 1 for j in range(N_ + 1)], "kd": kd_, "N": N_}))
            rep.broken.append({"kind": "krylov-decision-raises", "what": f"{type(e).__name__}: {e}"[:200], "eigenvalues": k_, "krylov_dim": kd_, "N": N_})
            continue
        rep.count("krylov-decision")
        rep.case({"krylov": [N_, k_, kd_]}, k_ <= kd_)
        klines.append("C10.krylov_decision " + json.dumps({"small": [j >= k_ - 1 for j in range(N_ + 1)], "kd": kd_, "N": N_}))
        kexp.append({"count": int(tri_.shape[0]), "prepared": prepared_unbounded, "set_state": set_unbounded, "N": N_, "distinct_eigenvalues": k_, "krylov_dim": kd_})
    kmodel = core.run_driver(klines)
    for ln_, ex_, m_ in zip(klines, kexp, kmodel):
        if ex_ is None:
            ndis += 1
            continue
        if not isinstance(m_, dict) or "error" in m_ or m_["count"] != ex_["count"] or m_["unbounded"] != ex_["prepared"] or m_["unbounded"] != ex_["set_state"]:
            ndis += 1
            if first is None:
                first = {"op": "C10.krylov_decision", "model": m_, "impl": ex_}
    rep.notes["correspondence_disagreements"] = ndis
    rep.notes["correspondence_lines"] = len(lines) + len(klines)
    if ndis:
        rep.broken.append({"kind": "correspondence", "count": ndis, "first": first})
    # ------------------------------------------------------------------ oracle: routes
    def fmt(q, f):
        return q.to(f)

    def tlists(T):
        out = {"linspace": np.linspace(0, T, 6)}
        steps = (T / 8) * (1 + 3e-6 * np.arange(8))
        out["chirped"] = np.concatenate([[0.0], np.cumsum(steps)])
        out["uneven-list"] = [0.0, 0.11 * T, 0.13 * T, 0.5 * T, 0.97 * T, T]
        return out
    se_methods = ["adams", "bdf", "lsoda", "dop853", "vern7", "vern9", "diag", "krylov"]
    me_methods = ["adams", "bdf", "lsoda", "dop853", "vern7", "vern9", "diag"]
    nsys = 3 if tier == "quick" else 12
    for si in range(nsys + 2):
        d = int(rng.choice([2, 3, 4]))
        H = qutip.rand_herm(d, seed=int(rng.integers(1 << 30)))
        if si == nsys:
            # two identical uncoupled qubits: degenerate levels whose eigenvectors a general eigensolver does not return orthonormal
            d = 4
            w_, g_ = float(rng.uniform(0.5, 1.5)), float(rng.uniform(0.2, 0.8))
            one = 0.5 * w_ * qutip.sigmaz() + g_ * qutip.sigmax()
            H = qutip.Qobj((qutip.tensor(one, qutip.qeye(2)) + qutip.tensor(qutip.qeye(2), one)).full())
        elif si == nsys + 1:
            # equally spaced levels with a doubly degenerate one
            d = 4
            H = qutip.Qobj(np.diag([0.0, 1.0, 1.0, 2.0]) * float(rng.uniform(0.5, 1.5)))
            Uo = qutip.rand_unitary(4, seed=int(rng.integers(1 << 30)))
            H = Uo * H * Uo.dag()
        H1 = qutip.rand_herm(d, seed=int(rng.integers(1 << 30)))
        cs = [np.sqrt(rng.uniform(0.05, 0.5)) * qutip.Qobj(rng.standard_normal((d, d)) + 1j * rng.standard_normal((d, d))) / np.sqrt(d) for _ in range(int(rng.integers(1, 3)))]
        psi0 = qutip.rand_ket(d, seed=int(rng.integers(1 << 30)))
        rho0 = qutip.rand_dm(d, seed=int(rng.integers(1 << 30)))
        e_ops = [qutip.rand_herm(d, seed=int(rng.integers(1 << 30)))]
        T = float(rng.uniform(1.0, 3.0))
        Hm, Lm = H.full(), qutip.liouvillian(H, cs).full()
        rep.case({"system": [d, len(cs)]}, True)
        for tname, tl in tlists(T).items():
            tarr = np.asarray(tl, dtype=float)
            ref_psi = [sla.expm(-1j * Hm * t) @ psi0.full().ravel() for t in tarr]
            ref_rho = [(sla.expm(Lm * t) @ rho0.full().reshape(-1, order="F")).reshape(d, d, order="F") for t in tarr]
            ref_U = [sla.expm(-1j * Hm * t) for t in tarr]
            for f in (("dense", "csr", "dia") if tier == "thorough" else (str(rng.choice(["dense", "csr", "dia"])), "csr")):
                for method in se_methods:
                    if tier == "quick" and rng.random() < 0.35:
                        continue
                    o = dict(TIGHT, method=method, store_states=True)
                    if method == "krylov":
                        o["krylov_dim"] = min(d, 3)
                    if method in ("diag", "krylov"):
                        o.pop("atol"), o.pop("rtol"), o.pop("nsteps")
                    cfg = {"route": "sesolve", "method": method, "format": f, "tlist": tname, "dim": d}
                    try:
                        with warnings.catch_warnings():
                            warnings.simplefilter("ignore")
                            with core.time_limit(120):
                                r = qutip.sesolve(fmt(H, f), psi0, tl, e_ops=e_ops, options=o)
                                rU = qutip.sesolve(fmt(H, f), qutip.qeye(d), tl, options=o) if method != "krylov" else None
                                # the identity to propagate, in every storage (row-major and column-major dense, sparse)
                                rUs = {}
                                if method != "krylov":
                                    rUs["dense-C"] = qutip.sesolve(fmt(H, f), qutip.Qobj(np.ascontiguousarray(np.eye(d, dtype=complex))), tl, options=o)
                                    rUs["dense-F"] = qutip.sesolve(fmt(H, f), qutip.Qobj(qutip.data.Dense(np.asfortranarray(np.eye(d, dtype=complex)), copy=False)), tl, options=o)
                                    rUs["csr"] = qutip.sesolve(fmt(H, f), qutip.qeye(d).to("csr"), tl, options=o)
                                # operators that are not the identity, among them ones with trace one (a projector, identity / d):
                                # what is propagated is U(t) A0, never renormalised
                                rAs = {}
                                if method != "krylov":
                                    P0 = np.zeros((d, d), dtype=complex)
                                    P0[0, 0] = 1.0
                                    for an, A0 in (("projector", P0), ("identity/d", np.eye(d, dtype=complex) / d), ("density-matrix", rho0.full()), ("generic", e_ops[0].full() + 0.5j * np.eye(d))):
                                        rAs[an] = (A0, qutip.sesolve(fmt(H, f), qutip.Qobj(A0), tl, options=o))
                    except core.CaseTimeout:
                        raise
                    except Exception as e:
                        v(f"raises:sesolve:{method}", f"sesolve({cfg}) raises {type(e).__name__}: {e}"[:200], cfg)
                        continue
                    rep.evaluations += 1
                    rep.count("sesolve/" + method)
                    dd = max(np.abs(s.full().ravel() - w).max() for s, w in zip(r.states, ref_psi))
                    if dd > TOL:
                        v(f"exact:sesolve:{method}:{tname}", f"sesolve {cfg}: states differ from exp(-iHt) psi0 by {dd:.2e}", cfg)
                    ee = max(abs(r.expect[0][k] - np.vdot(w, e_ops[0].full() @ w).real) for k, w in enumerate(ref_psi))
                    if ee > TOL:
                        v(f"exact:sesolve-expect:{method}", f"sesolve {cfg}: expectation values differ by {ee:.2e}", cfg)
                    nn = max(abs(s.norm() - 1) for s in r.states)
                    if nn > TOL:
                        v(f"norm:sesolve:{method}", f"sesolve {cfg}: norm drifts by {nn:.2e}", cfg)
                    if rU is not None:
                        dd = max(np.abs(s.full() - w).max() for s, w in zip(rU.states, ref_U))
                        if dd > TOL:
                            v(f"exact:sesolve-operator:{method}", f"sesolve of the identity {cfg}: differs from exp(-iHt) by {dd:.2e}", cfg)
                        for an, (A0, ra) in rAs.items():
                            dd = max(np.abs(s.full() - w @ A0).max() for s, w in zip(ra.states, ref_U))
                            rep.count("operator-state/" + an)
                            if dd > TOL:
                                v(f"exact:sesolve-operator:{method}:{an}", f"sesolve of an operator initial state ({an}) {cfg}: differs from exp(-iHt) A0 by {dd:.2e}", cfg)
                        for uname, ru in rUs.items():
                            dd = max(np.abs(s.full() - w).max() for s, w in zip(ru.states, ref_U))
                            rep.count("operator-state/" + uname)
                            if dd > TOL:
                                v(f"exact:sesolve-operator:{method}:{uname}", f"sesolve of the identity stored as {uname} {cfg}: differs from exp(-iHt) by {dd:.2e}", cfg)
                for method in me_methods:
                    if tier == "quick" and rng.random() < 0.5:
                        continue
                    o = dict(TIGHT, method=method, store_states=True)
                    if method == "diag":
                        o.pop("atol"), o.pop("rtol"), o.pop("nsteps")
                    forms = {"dm": rho0, "opket": qutip.operator_to_vector(rho0), "ket": psi0, "pure-opket": qutip.operator_to_vector(qutip.ket2dm(psi0)), "pure-dm": qutip.ket2dm(psi0)}
                    for sname, st in forms.items():
                        cfg = {"route": "mesolve", "method": method, "format": f, "tlist": tname, "state": sname, "dim": d}
                        try:
                            with warnings.catch_warnings():
                                warnings.simplefilter("ignore")
                                with core.time_limit(120):
                                    r = qutip.mesolve(fmt(H, f), st, tl, c_ops=[fmt(c, f) for c in cs], options=o)
                                    rL = qutip.mesolve(fmt(qutip.liouvillian(H, cs), f), st, tl, options=o)
                        except core.CaseTimeout:
                            raise
                        except Exception as e:
                            v(f"raises:mesolve:{method}:{sname}", f"mesolve({cfg}) raises {type(e).__name__}: {e}"[:200], cfg)
                            continue
                        rep.evaluations += 1
                        rep.count("mesolve/" + method + "/" + sname)
                        if sname in ("ket", "pure-opket", "pure-dm"):
                            refs = [(sla.expm(Lm * t) @ qutip.ket2dm(psi0).full().reshape(-1, order="F")).reshape(d, d, order="F") for t in tarr]
                        else:
                            refs = ref_rho
                        for which, res in (("H+c_ops", r), ("Liouvillian", rL)):
                            mats = [(s.full().reshape(d, d, order="F") if sname.endswith("opket") else s.full()) for s in res.states]
                            dd = max(np.abs(a - w).max() for a, w in zip(mats, refs))
                            if dd > TOL:
                                v(f"exact:mesolve:{method}:{sname}:{which}", f"mesolve {cfg} ({which}): states differ from exp(Lt) rho0 by {dd:.2e}", cfg)
                            for a in mats:
                                if abs(np.trace(a) - 1) > TOL or np.abs(a - a.conj().T).max() > TOL or np.linalg.eigvalsh((a + a.conj().T) / 2).min() < -TOL:
                                    v(f"physical:mesolve:{method}:{sname}", f"mesolve {cfg} ({which}): trace {np.trace(a)}, non-Hermitian part {np.abs(a - a.conj().T).max():.1e}, min eigenvalue {np.linalg.eigvalsh((a + a.conj().T) / 2).min():.1e}", cfg)
                                    break
            # propagator applied to the state
            try:
                with warnings.catch_warnings():
                    warnings.simplefilter("ignore")
                    U = qutip.propagator(H, list(tarr), options=dict(TIGHT))
                    UL = qutip.propagator(H, list(tarr), c_ops=cs, options=dict(TIGHT))
                dd = max(np.abs((u.full() @ psi0.full().ravel()) - w).max() for u, w in zip(U, ref_psi))
                d2 = max(np.abs((ul.full() @ rho0.full().reshape(-1, order="F")).reshape(d, d, order="F") - w).max() for ul, w in zip(UL, ref_rho))
                rep.count("propagator")
                if dd > TOL or d2 > TOL:
                    v("exact:propagator", f"propagator applied to the initial state differs from the exact solution by {max(dd, d2):.2e} (tlist {tname})", {"tlist": tname, "dim": d})
            except Exception as e:
                v("raises:propagator", f"propagator raises {type(e).__name__}: {e}"[:200])
        # small absolute time scale: GHz generator, nanosecond non-uniform times
        scale = 1e9
        tl_ns = np.array([0.0, 0.3, 0.35, 0.9, 1.4, 2.0]) * (T / 2.0) / scale
        ref_ns = [sla.expm(-1j * Hm * scale * t) @ psi0.full().ravel() for t in tl_ns]
        for method in ("adams", "vern7", "diag", "dop853"):
            o = {"method": method, "store_states": True, "progress_bar": ""}
            if method != "diag":
                o.update({"atol": 1e-10, "rtol": 1e-8, "nsteps": 100000})
            try:
                with warnings.catch_warnings():
                    warnings.simplefilter("ignore")
                    with core.time_limit(120):
                        r = qutip.sesolve(H * scale, psi0, tl_ns, options=o)
                dd = max(np.abs(s.full().ravel() - w).max() for s, w in zip(r.states, ref_ns))
                rep.count("nanosecond/" + method)
                if dd > TOL:
                    v(f"exact:sesolve-small-times:{method}", f"sesolve with a GHz Hamiltonian and non-uniform nanosecond times ({method}) differs from the exact solution by {dd:.2e}", {"method": method})
            except core.CaseTimeout:
                raise
            except Exception as e:
                v(f"raises:small-times:{method}", f"{type(e).__name__}: {e}"[:200])
        # time-dependent: all routes that describe the same dynamics agree
        tl = np.linspace(0, T, 6)
        w = float(rng.uniform(0.5, 2.0))
        coeff_forms = {"function": lambda: [H, [H1, f_cos]], "array": lambda: qutip.QobjEvo([H, [H1, np.cos(w * np.linspace(0, T, 401))]], tlist=np.linspace(0, T, 401), order=3),
                       "string": lambda: [H, [H1, "cos(w*t)"]]}
        base = None
        for cname, mk in coeff_forms.items():
            for method in (me_methods[:-1] if tier == "thorough" else ["adams", "vern7", "dop853", "bdf"]):
                o = dict(TIGHT, method=method, store_states=True)
                cfg = {"route": "td-mesolve", "coefficient": cname, "method": method}
                try:
                    with warnings.catch_warnings():
                        warnings.simplefilter("ignore")
                        with core.time_limit(180):
                            r = qutip.mesolve(mk(), rho0, tl, c_ops=cs, args={"w": w}, options=o)
                except core.CaseTimeout:
                    raise
                except Exception as e:
                    v(f"raises:td:{cname}:{method}", f"{cfg}: {type(e).__name__}: {e}"[:200], cfg)
                    continue
                st = [s.full() for s in r.states]
                rep.evaluations += 1
                rep.count("td/" + cname + "/" + method)
                tol = 2e-4 if cname == "array" else TOL
                if base is None:
                    base = st
                else:
                    dd = max(np.abs(a - b).max() for a, b in zip(base, st))
                    if dd > tol:
                        v(f"routes:td:{cname}:{method}", f"time-dependent mesolve ({cfg}) differs from the function / adams route by {dd:.2e}", cfg)
        if base is not None:
            try:
                with warnings.catch_warnings():
                    warnings.simplefilter("ignore")
                    Ht = qutip.QobjEvo([H, [H1, f_cos]], args={"w": w})
                    Lt = qutip.liouvillian(Ht, cs)
                    rL = qutip.mesolve(Lt, rho0, tl, options=dict(TIGHT, store_states=True))
                    rV = qutip.mesolve(Lt, qutip.operator_to_vector(rho0), tl, options=dict(TIGHT, store_states=True))
                    UL = qutip.propagator(Ht, list(tl), c_ops=cs, options=dict(TIGHT))
                    kets = qutip.sesolve(Ht, psi0, tl, options=dict(TIGHT, store_states=True)).states
                    dms = qutip.mesolve(Ht, qutip.ket2dm(psi0), tl, options=dict(TIGHT, store_states=True)).states
                    Uk = qutip.propagator(Ht, list(tl), options=dict(TIGHT))
                checks = {"pre-assembled Liouvillian": max(np.abs(a - s.full()).max() for a, s in zip(base, rL.states)),
                          "operator-ket": max(np.abs(a - s.full().reshape(d, d, order="F")).max() for a, s in zip(base, rV.states)),
                          "propagator x state": max(np.abs(a - (u.full() @ rho0.full().reshape(-1, order="F")).reshape(d, d, order="F")).max() for a, u in zip(base, UL)),
                          "ket vs density matrix": max(np.abs(k.proj().full() - (m.proj() if m.isket else m).full()).max() for k, m in zip(kets, dms)),
                          "unitary propagator x ket": max(np.abs(u.full() @ psi0.full().ravel() - k.full().ravel()).max() for u, k in zip(Uk, kets))}
                for name, dd in checks.items():
                    rep.evaluations += 1
                    rep.count("td-route")
                    if dd > TOL:
                        v(f"routes:td:{name}", f"time-dependent dynamics: {name} differs by {dd:.2e}", {"route": name})
                # Floquet for the periodic Hamiltonian
                Tper = 2 * np.pi / w
                tlf = np.linspace(0, 2 * Tper, 7)
                fl = qutip.fsesolve(Ht, psi0, tlf, T=Tper, options={"atol": 1e-10, "rtol": 1e-8, "nsteps": 100000}) if hasattr(qutip, "fsesolve") else None
                if fl is not None:
                    ks = qutip.sesolve(Ht, psi0, tlf, options=dict(TIGHT, store_states=True)).states
                    dd = max(1 - abs(np.vdot(a.full().ravel(), b.full().ravel())) for a, b in zip(fl.states, ks))
                    rep.count("floquet")
                    if dd > 2e-5:
                        v("routes:floquet", f"Floquet-basis solution differs from sesolve by {dd:.2e} (1 - overlap)", {"w": w, "H": str(H.full().tolist()), "H1": str(H1.full().tolist()), "psi0": str(psi0.full().ravel().tolist())})
                    # time lists that do not start at 0 (inside the first period, at a period, later): the Floquet-basis
                    # solution and the Floquet-Markov solver without bath coupling against the Schrodinger solution
                    for t_start in (0.37 * Tper, Tper, 1.9 * Tper):
                        tls = t_start + np.linspace(0, 1.3 * Tper, 4)
                        ks = qutip.sesolve(Ht, psi0, tls, options=dict(TIGHT, store_states=True)).states
                        fls = qutip.fsesolve(Ht, psi0, tls, T=Tper, options={"atol": 1e-10, "rtol": 1e-8, "nsteps": 100000}).states
                        fm = qutip.fmmesolve(Ht, psi0, tls, c_ops=[qutip.Qobj(np.eye(d))], spectra_cb=[lambda w_: 0.0 * w_], T=Tper,
                                             options={"atol": 1e-10, "rtol": 1e-8, "nsteps": 100000, "store_states": True}).states
                        rep.count("floquet-late-start")
                        rep.evaluations += 2
                        d1 = max(1 - abs(np.vdot(a.full().ravel(), b.full().ravel())) for a, b in zip(fls, ks))
                        d2 = max(np.abs((a if a.isoper else a.proj()).full() - b.proj().full()).max() for a, b in zip(fm, ks))
                        if d1 > 2e-5:
                            v("routes:floquet-late-start", f"fsesolve on a time list starting at {t_start / Tper:.2f} T differs from sesolve by {d1:.2e} (1 - overlap)", {"w": w, "t_start": float(t_start)})
                        if d2 > 2e-4:
                            v("routes:floquet-markov-late-start", f"fmmesolve without bath coupling on a time list starting at {t_start / Tper:.2f} T differs from sesolve by {d2:.2e}", {"w": w, "t_start": float(t_start)})
                # Bloch-Redfield without bath coupling is the master equation
                br = qutip.brmesolve(H, rho0, tl, a_ops=[], c_ops=cs, options=dict(TIGHT, store_states=True))
                me = qutip.mesolve(H, rho0, tl, c_ops=cs, options=dict(TIGHT, store_states=True))
                dd = max(np.abs(a.full() - b.full()).max() for a, b in zip(br.states, me.states))
                rep.count("bloch-redfield-limit")
                if dd > TOL:
                    v("routes:bloch-redfield", f"brmesolve without a_ops differs from mesolve by {dd:.2e}", {"dim": d})
            except core.CaseTimeout:
                raise
            except Exception as e:
                v("raises:td-routes", f"{type(e).__name__}: {e}"[:240])
        # solver objects reused: eigenstate first, then a generic state (Krylov and the others)
        ev, evec = H.eigenstates()
        # tolerances assigned to a solver object that already exists (a dictionary assigned to .options, single items set):
        # the next run meets the tolerance now requested
        for method in ("adams", "bdf", "lsoda", "dop853", "vern7", "vern9"):
            try:
                with warnings.catch_warnings():
                    warnings.simplefilter("ignore")
                    with core.time_limit(120):
                        s_ = qutip.SESolver(H, options={"method": method, "progress_bar": "", "store_states": True})
                        s_.run(psi0, [0, 0.3])
                        s_.options = {"atol": 1e-12, "rtol": 1e-12, "nsteps": 200000}
                        got_a = s_.run(psi0, tl).states
                        s2_ = qutip.SESolver(H, options={"method": method, "progress_bar": "", "store_states": True})
                        s2_.options["atol"] = 1e-12
                        s2_.options["rtol"] = 1e-12
                        s2_.options["nsteps"] = 200000
                        got_b = s2_.run(psi0, tl).states
            except core.CaseTimeout:
                raise
            except Exception as e:
                if type(e).__name__ == "IntegratorException":
                    continue
                v(f"options-live:{method}:raises", f"{type(e).__name__}: {e}"[:200], {"method": method})
                continue
            exact = [sla.expm(-1j * H.full() * t) @ psi0.full() for t in tl]
            for nm_, got_ in (("dictionary assigned to .options", got_a), ("items set on .options", got_b)):
                rep.evaluations += 1
                rep.count("options-on-live-solver")
                err = max(np.abs(a.full() - b).max() for a, b in zip(got_, exact))
                if err > 2e-9:
                    v(f"exact:options-live:{method}", f"{method}: after tolerances 1e-12 were given to an existing solver ({nm_}) the states miss the matrix-exponential solution by {err:.1e}", {"method": method, "how": nm_, "H": str(H.full().tolist())})
                    break
        for method in ("krylov", "adams", "vern7", "diag"):
            o = {"method": method, "store_states": True, "progress_bar": ""}
            if method == "krylov":
                o["krylov_dim"] = min(d, 3)
            try:
                with warnings.catch_warnings():
                    warnings.simplefilter("ignore")
                    with core.time_limit(120):
                        s = qutip.SESolver(H, options=o)
                        s.run(evec[0], tl)
                        r = s.run(psi0, tl)
                refp = [sla.expm(-1j * Hm * t) @ psi0.full().ravel() for t in tl]
                dd = max(np.abs(a.full().ravel() - w_).max() for a, w_ in zip(r.states, refp))
                rep.count("reuse/" + method)
                if dd > (1e-4 if method in ("adams", "vern7") else 1e-6):
                    v(f"reuse:{method}", f"SESolver({method}) reused after an eigenstate run differs from the exact solution by {dd:.2e}", {"method": method, "dim": d})
            except core.CaseTimeout:
                raise
            except Exception as e:
                v(f"raises:reuse:{method}", f"{type(e).__name__}: {e}"[:200])
        # initial kets that are not normalised: the equation is linear
        for method in se_methods:
            o = {"method": method, "store_states": True, "progress_bar": ""}
            if method not in ("diag", "krylov"):
                o.update(atol=1e-10, rtol=1e-9, nsteps=200000)
            if method == "krylov":
                o.update(krylov_dim=max(1, min(d - 1, 3)), nsteps=200000)
            for scale_ in (2.0, 10.0, 0.1, 3j):
                try:
                    with warnings.catch_warnings():
                        warnings.simplefilter("ignore")
                        with core.time_limit(120):
                            st_ = scale_ * psi0
                            got_ = qutip.sesolve(H, st_, tl, options=o).states
                except core.CaseTimeout:
                    raise
                except Exception as e:
                    if type(e).__name__ != "IntegratorException":
                        v(f"raises:unnormalised:{method}", f"{type(e).__name__}: {e}"[:200],
                          {"method": method, "scale": str(scale_), "H": [[str(x) for x in row] for row in H.full()], "psi0": [str(x) for x in psi0.full().ravel()], "tlist": [float(x) for x in tl], "options": {k_: str(x_) for k_, x_ in o.items()}})
                    continue
                rep.evaluations += 1
                rep.count("unnormalised/" + method)
                err_ = max(np.abs(a.full() - sla.expm(-1j * Hm * t) @ st_.full()).max() for a, t in zip(got_, tl))
                if err_ > 2e-5 * abs(scale_):
                    v(f"exact:unnormalised:{method}", f"sesolve({method}) of a ket of norm {abs(scale_):g} differs from exp(-iHt) psi0 by {err_:.2e}", {"method": method, "scale": str(scale_), "dim": d})
                    break
        if si == 0:
            # a pulse that only max_step lets the integrator see, starting from a state on which the generator vanishes at
            # t0 (pulse-only Hamiltonian): every method gives the rotation by the pulse area
            from scipy.special import erf as _erf
            for tc_ in (0.19, 0.043):
                area_ = 0.5 * (np.pi / 2) * 0.5 * (_erf((0.5 - tc_) / (0.002 * np.sqrt(2))) - _erf((0 - tc_) / (0.002 * np.sqrt(2))))      # theta(0.5) / 2
                Hpu_ = qutip.QobjEvo([[qutip.sigmax() / 2, _c10_pulse]], args={"tc": tc_})
                for method in ("adams", "bdf", "lsoda", "vern7", "vern9"):
                    try:
                        with warnings.catch_warnings():
                            warnings.simplefilter("ignore")
                            with core.time_limit(240):
                                gp_ = qutip.sesolve(Hpu_, qutip.basis(2, 0), np.linspace(0, 0.5, 6), options={"method": method, "max_step": 0.0005, "progress_bar": "", "atol": 1e-8, "rtol": 1e-6, "nsteps": 100000}).states[-1].full().ravel()
                        rep.evaluations += 1
                        rep.count("pulse-from-rest/" + method)
                        wantp_ = np.array([np.cos(area_), -1j * np.sin(area_)])
                        if np.abs(gp_ - wantp_).max() > 1e-4:
                            v(f"pulse-from-rest:{method}", f"sesolve({method}, max_step=0.0005) from a state on which the generator vanishes at t0 misses a Gaussian pulse of width 0.002 at t={tc_}: final state {gp_.tolist()}, rotation by the pulse area gives {wantp_.tolist()}", {"method": method, "t_c": tc_})
                    except core.CaseTimeout:
                        raise
                    except Exception as e:
                        if type(e).__name__ != "IntegratorException":
                            v(f"raises:pulse-from-rest:{method}", f"{type(e).__name__}: {e}"[:200], {"method": method})
            # what a callback e_op keeps or returns is the state of its time, not the integrator's work buffer
            for method in se_methods:
                ok_ = {"method": method, "store_states": False, "normalize_output": False, "progress_bar": ""}
                if method not in ("diag", "krylov"):
                    ok_.update(atol=1e-10, rtol=1e-9, nsteps=200000)
                try:
                    with warnings.catch_warnings():
                        warnings.simplefilter("ignore")
                        with core.time_limit(120):
                            Hk_ = 0.5 * qutip.sigmaz() + 0.3 * qutip.sigmax()
                            pk0_ = 1.7 * qutip.Qobj(np.array([[0.6], [0.8j]]))
                            tk_ = [0.0, 0.4, 0.9, 1.5]
                            rk_ = qutip.sesolve(Hk_, pk0_, tk_, e_ops=[lambda t, st: st], options=ok_)
                    rep.evaluations += 1
                    rep.count("callback-keeps-state/" + method)
                    ek_ = max(np.abs(st_.full() - sla.expm(-1j * Hk_.full() * t_) @ pk0_.full()).max() for st_, t_ in zip(rk_.expect[0], tk_))
                    if ek_ > 2e-5:
                        v(f"callback-state:{method}", f"sesolve({method}) with e_ops=[lambda t, state: state]: the states the callback returned differ from exp(-iHt) psi0 at their times by {ek_:.2e} (they share the integrator's buffer)", {"method": method})
                except core.CaseTimeout:
                    raise
                except Exception as e:
                    if type(e).__name__ != "IntegratorException":
                        v(f"raises:callback-state:{method}", f"{type(e).__name__}: {e}"[:200], {"method": method})
            # a result is a value: carrying the solver on with step() after run() does not change the final state an earlier
            # result holds (states not stored, output not normalised)
            Hc2_ = 0.5 * qutip.sigmaz() + 0.3 * qutip.sigmax()
            k2_ = 1.7 * qutip.Qobj(np.array([[0.6], [0.8j]]))
            for method in se_methods:
                o2_ = {"method": method, "store_states": False, "store_final_state": True, "normalize_output": False, "progress_bar": ""}
                if method not in ("diag", "krylov"):
                    o2_.update(atol=1e-10, rtol=1e-9, nsteps=200000)
                try:
                    with warnings.catch_warnings():
                        warnings.simplefilter("ignore")
                        with core.time_limit(120):
                            s2_ = qutip.SESolver(Hc2_, options=o2_)
                            r2_ = s2_.run(k2_, [0.0, 0.4, 0.9])
                            kept_ = r2_.final_state.full().copy()
                            s2_.step(1.6)
                            s2_.step(2.3)
                            after_ = r2_.final_state.full()
                    rep.evaluations += 1
                    rep.count("final-state-after-step/" + method)
                    want2_ = sla.expm(-1j * Hc2_.full() * 0.9) @ k2_.full()
                    if np.abs(after_ - kept_).max() > 0 or np.abs(kept_ - want2_).max() > 2e-5:
                        v(f"final-state-changes:{method}", f"SESolver({method}): the final state held by the result of run() {'changes when the solver is carried on with step()' if np.abs(after_ - kept_).max() > 0 else 'differs from exp(-iHt) psi0'} (by {max(np.abs(after_ - kept_).max(), np.abs(kept_ - want2_).max()):.2e})", {"method": method})
                except core.CaseTimeout:
                    raise
                except Exception as e:
                    if type(e).__name__ != "IntegratorException":
                        v(f"raises:final-state-after-step:{method}", f"{type(e).__name__}: {e}"[:200], {"method": method})
        if si == 0:
            # generators that cannot be diagonalised (a cascade with equal decay rates, collective decay): every method
            # either gives exp(Lt) rho0 or declines - no method returns anything else
            casc = [np.sqrt(0.7) * qutip.basis(3, 1) * qutip.basis(3, 2).dag(), np.sqrt(0.7) * qutip.basis(3, 0) * qutip.basis(3, 1).dag()]
            defective = {"three-level cascade with equal rates": (qutip.qzero(3), casc, qutip.fock_dm(3, 2)),
                         "spin 1 with J-": (qutip.jmat(1, "z"), [qutip.jmat(1, "-")], qutip.fock_dm(3, 0))}
            for dname, (Hd_, cd_, rd_) in defective.items():
                Ld_ = qutip.liouvillian(Hd_, cd_).full()
                td_ = [0.0, 0.5, 1.3]
                wantd_ = [(sla.expm(Ld_ * t_) @ rd_.full().reshape(-1, order="F")).reshape(3, 3, order="F") for t_ in td_]
                for method in me_methods:
                    try:
                        with warnings.catch_warnings():
                            warnings.simplefilter("ignore")
                            with core.time_limit(120):
                                gd_ = qutip.mesolve(Hd_, rd_, td_, cd_, options={"method": method, "progress_bar": "", "store_states": True}).states
                        rep.evaluations += 1
                        rep.count("defective-generator/" + method)
                        ed_ = max(np.abs(a.full() - w_).max() for a, w_ in zip(gd_, wantd_))
                        if not ed_ < 1e-4:
                            v(f"defective-generator:{method}", f"mesolve({method}) for a generator that cannot be diagonalised ({dname}) differs from exp(Lt) rho0 by {ed_:.2e}", {"system": dname, "method": method})
                    except core.CaseTimeout:
                        raise
                    except Exception as e:
                        if type(e).__name__ != "IntegratorException":
                            v(f"raises:defective-generator:{method}", f"{dname}: {type(e).__name__}: {e}"[:200], {"method": method})
                        else:
                            rep.count("defective-generator-declined/" + method)
        # Krylov: a Hamiltonian whose Krylov space closes after exactly krylov_dim vectors (rank-one H, krylov_dim = 2):
        # the projected evolution is exact, nothing has to be refused
        if si == 0:
            for Ur_ in (qutip.qeye(3), qutip.rand_unitary(3, seed=int(rng.integers(1 << 30)))):
                Hr_ = Ur_ * qutip.Qobj(np.diag([float(rng.uniform(0.2, 1.5)), 0.0, 0.0])) * Ur_.dag()
                pk_ = qutip.rand_ket(3, seed=int(rng.integers(1 << 30)))
                try:
                    with warnings.catch_warnings():
                        warnings.simplefilter("ignore")
                        with core.time_limit(120):
                            gk_ = qutip.sesolve(Hr_, pk_, tl, options={"method": "krylov", "krylov_dim": 2, "progress_bar": "", "store_states": True}).states
                    rep.evaluations += 1
                    rep.count("krylov-closing-subspace")
                    ek_ = max(np.abs(a.full() - sla.expm(-1j * Hr_.full() * t) @ pk_.full()).max() for a, t in zip(gk_, tl))
                    if ek_ > 2e-5:
                        v("exact:krylov-closing-subspace", f"sesolve(krylov, krylov_dim=2) for a rank-one Hamiltonian differs from exp(-iHt) psi0 by {ek_:.2e}", {"H": [[str(x) for x in row] for row in Hr_.full()], "psi0": [str(x) for x in pk_.full().ravel()]})
                except core.CaseTimeout:
                    raise
                except Exception as e:
                    v("raises:krylov-closing-subspace", f"sesolve(krylov, krylov_dim=2) for a rank-one 3x3 Hamiltonian (the Krylov space closes after two vectors): {type(e).__name__}: {e}"[:300],
                      {"H": [[str(x) for x in row] for row in Hr_.full()], "psi0": [str(x) for x in pk_.full().ravel()], "tlist": [float(x) for x in tl]})
        # one solver object propagating operators handed over in different memory orders and storage formats, one after the
        # other: each answer is exp(-iHt) times the operator it was given
        Hc_ = H + 0.3j * (qutip.Qobj(np.triu(H.full(), 1)) - qutip.Qobj(np.triu(H.full(), 1)).dag())
        Um = rng.standard_normal((d, d)) + 1j * rng.standard_normal((d, d))
        forms_ = {"identity, Fortran order": qutip.Qobj(qutip.data.Dense(np.asfortranarray(np.eye(d, dtype=complex)), copy=False)),
                  "generic, C order": qutip.Qobj(np.ascontiguousarray(Um)), "generic, Fortran order": qutip.Qobj(qutip.data.Dense(np.asfortranarray(Um), copy=False)),
                  "generic, CSR": qutip.Qobj(Um).to("csr"), "identity, C order": qutip.Qobj(np.ascontiguousarray(np.eye(d, dtype=complex)))}
        for method in ("vern7", "vern9", "adams", "dop853", "diag"):
            o = {"method": method, "store_states": True, "progress_bar": ""}
            if method != "diag":
                o.update(atol=1e-10, rtol=1e-8, nsteps=100000)
            try:
                with warnings.catch_warnings():
                    warnings.simplefilter("ignore")
                    with core.time_limit(240):
                        s_ = qutip.SESolver(Hc_, options=o)
                        order_ = list(forms_)
                        rng.shuffle(order_)
                        for nm_ in order_ + order_[:2]:
                            got_ = s_.run(forms_[nm_], [0, 0.7]).states[-1].full()
                            want_ = sla.expm(-1j * Hc_.full() * 0.7) @ forms_[nm_].full()
                            rep.evaluations += 1
                            rep.count("reuse-operator-forms/" + method)
                            if np.abs(got_ - want_).max() > 2e-6 * (1 + np.abs(want_).max()):
                                v(f"reuse-operator-forms:{method}", f"SESolver({method}) used for operators in the forms {order_}, one after the other: for the operator given as '{nm_}' the result differs from exp(-iHt) U0 by {np.abs(got_ - want_).max():.2e}", {"method": method, "dim": d, "form": nm_})
                                break
            except core.CaseTimeout:
                raise
            except Exception as e:
                if type(e).__name__ != "IntegratorException":
                    v(f"raises:reuse-operator-forms:{method}", f"{type(e).__name__}: {e}"[:200])
    # Krylov with a subspace smaller than the system: reuse after a state inside an invariant subspace
    for _ in range(2 if tier == "quick" else 8):
        d = int(rng.choice([6, 8, 10]))
        Hk = qutip.rand_herm(d, density=1.0, seed=int(rng.integers(1 << 30))) * 2.0
        ev, evec = Hk.eigenstates()
        psi = qutip.rand_ket(d, seed=int(rng.integers(1 << 30)))
        tlk = np.linspace(0, 6.0, 7)
        refp = [sla.expm(-1j * Hk.full() * t) @ psi.full().ravel() for t in tlk]
        for first in ("generic", "eigenstate", "two-level-subspace"):
            o = {"method": "krylov", "krylov_dim": 3, "store_states": True, "progress_bar": "", "atol": 1e-9, "nsteps": 100000}
            try:
                with warnings.catch_warnings():
                    warnings.simplefilter("ignore")
                    with core.time_limit(120):
                        s = qutip.SESolver(Hk, options=o)
                        if first == "eigenstate":
                            s.run(evec[0], tlk)
                        elif first == "two-level-subspace":
                            s.run((evec[0] + evec[1]).unit(), tlk)
                        r = s.run(psi, tlk)
                dd = max(np.abs(a.full().ravel() - w_).max() for a, w_ in zip(r.states, refp))
                rep.evaluations += 1
                rep.count("krylov-reuse/" + first)
                if dd > 1e-5:
                    v(f"reuse:krylov:{first}", f"SESolver(krylov, krylov_dim=3, dim {d}) run on a generic state after a run on a state of kind '{first}' differs from the exact solution by {dd:.2e}", {"dim": d, "first": first})
            except core.CaseTimeout:
                raise
            except Exception as e:
                if type(e).__name__ == "IntegratorException":
                    rep.count("krylov-refused")
                    continue
                v(f"raises:krylov-reuse:{first}", f"{type(e).__name__}: {e}"[:200])
    for sig, (what, data) in viol.items():
        rep.violation(core.Violation("C10:" + sig, what, data))
    if (rep.broken or not proved) and not rep.violations:
        rep.violation(core.Violation("C10:unverified", "model/proof no longer matches the code and no failing input was found",
                                     {"broken": rep.broken}, failing_input_found=False))
    return rep.finish()


if __name__ == "__main__":
    core.main(run, PID)
