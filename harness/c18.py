"""C18 — every steady-state method returns a normalised fixed point of the generator.

Correspondence (exact, integer data): `data.permute.indices` on columns and matrices and `np.argsort`
of a permutation against the Lean model (scatter / argsort / their composition), and the linear system
that `_steadystate_direct` hands to the solver (captured by wrapping `data.solve` for the call) against
`constraintSystem`.
Oracle (independent): random and structured Lindblad generators with a unique stationary state on
single and composite systems x storage formats x methods x linear solvers x reordering / preconditioner
/ weight options: fixed-point residual, Hermiticity, unit trace, positivity, dims, agreement between all
methods and with the long-time limit of mesolve; hierarchy steady state; pseudo-inverse relations.
"""
import json
import os
import sys
import warnings

import numpy as np

sys.path.insert(0, os.path.dirname(os.path.abspath(__file__)))
import core

PID = "C18"


def _rand_herm(rng, d):
    a = rng.standard_normal((d, d)) + 1j * rng.standard_normal((d, d))
    return (a + a.conj().T) / 2


def rand_system(rng, kind):
    """(H, c_ops, dims) with a unique stationary state"""
    import qutip
    if kind == "qubit":
        H = qutip.rand_herm(2, seed=int(rng.integers(1 << 30)))
        c = [np.sqrt(rng.uniform(0.2, 1.0)) * qutip.sigmam(), np.sqrt(rng.uniform(0.05, 0.4)) * qutip.sigmap()]
    elif kind == "qutrit":
        H = qutip.rand_herm(3, seed=int(rng.integers(1 << 30)))
        a = qutip.destroy(3)
        c = [np.sqrt(rng.uniform(0.2, 1.0)) * a, np.sqrt(rng.uniform(0.05, 0.3)) * a.dag()]
    elif kind == "cavity":
        N = int(rng.integers(3, 6))
        a = qutip.destroy(N)
        H = rng.uniform(0.5, 1.5) * a.dag() * a + rng.uniform(0.1, 0.5) * (a + a.dag())
        c = [np.sqrt(rng.uniform(0.3, 1.0)) * a]
    elif kind == "two-qubit":
        H = qutip.rand_herm([2, 2], seed=int(rng.integers(1 << 30)))
        c = [np.sqrt(rng.uniform(0.2, 1.0)) * qutip.tensor(qutip.sigmam(), qutip.qeye(2)),
             np.sqrt(rng.uniform(0.2, 1.0)) * qutip.tensor(qutip.qeye(2), qutip.sigmam()),
             np.sqrt(rng.uniform(0.05, 0.3)) * qutip.tensor(qutip.sigmap(), qutip.qeye(2))]
    elif kind == "exchange":
        # two qubits exchanging an excitation, only the second one damped: structural zeros on the
        # diagonal of the Liouvillian (levels without a rate or an energy of their own)
        g = rng.uniform(0.3, 1.0)
        sm1, sm2 = qutip.tensor(qutip.sigmam(), qutip.qeye(2)), qutip.tensor(qutip.qeye(2), qutip.sigmam())
        H = g * (sm1.dag() * sm2 + sm2.dag() * sm1) + rng.uniform(0.2, 0.6) * (sm1 + sm1.dag())
        c = [np.sqrt(rng.uniform(0.3, 1.0)) * sm2]
    elif kind == "spin-cascade":
        # pure decay down a spin ladder: the stationary state is the last basis state, fed through a chain of levels
        # (the diagonal of the Liouvillian has structural zeros and the bipartite matching is a long cycle)
        j_ = float(rng.choice([1.0, 1.5, 2.0]))
        H = qutip.qzero(int(2 * j_ + 1))
        c = [np.sqrt(rng.uniform(0.3, 1.0)) * qutip.jmat(j_, "-")]
    elif kind == "pumped-ladder":
        # incoherent pumping up a truncated oscillator: the stationary state is the top level
        N = int(rng.integers(3, 6))
        H = qutip.qzero(N)
        c = [np.sqrt(rng.uniform(0.3, 1.0)) * qutip.create(N)]
    elif kind == "cascade-x-qubit":
        H = qutip.tensor(qutip.qzero(3), 0.5 * qutip.sigmax())
        c = [np.sqrt(rng.uniform(0.3, 1.0)) * qutip.tensor(qutip.jmat(1.0, "-"), qutip.qeye(2)), np.sqrt(rng.uniform(0.3, 1.0)) * qutip.tensor(qutip.qeye(3), qutip.sigmam())]
    elif kind == "double-dot":
        # transport through two coherently coupled levels (empty, left, right)
        e, L_, R_ = qutip.basis(3, 0), qutip.basis(3, 1), qutip.basis(3, 2)
        H = rng.uniform(0.3, 1.0) * (L_ * R_.dag() + R_ * L_.dag())
        c = [np.sqrt(rng.uniform(0.3, 1.0)) * L_ * e.dag(), np.sqrt(rng.uniform(0.3, 1.0)) * e * R_.dag()]
    else:   # qubit x qutrit
        H = qutip.rand_herm([2, 3], seed=int(rng.integers(1 << 30)))
        a = qutip.destroy(3)
        c = [np.sqrt(rng.uniform(0.2, 1.0)) * qutip.tensor(qutip.sigmam(), qutip.qeye(3)),
             np.sqrt(rng.uniform(0.2, 1.0)) * qutip.tensor(qutip.qeye(2), a),
             np.sqrt(rng.uniform(0.05, 0.3)) * qutip.tensor(qutip.sigmap(), qutip.qeye(3))]
    return H, c


def run(tier, seed, replay):
    rep = core.Report(PID, tier, seed)
    rep.rule = ("generators: 10 families (qubit, qutrit, cavity, two-qubit, exchange with structural zeros, double dot, qubit x qutrit, spin cascade, pumped ladder, cascade x qubit: stationary states fed through chains of levels) x random "
                "parameters x 3 storage formats x ~45 method / solver / reordering / preconditioner / weight combinations; non-trivial = every generator")
    rep.assumptions = ["residual bound: 1e-7 x ||L|| for direct / eigen / svd / power with exact solvers, 1e-4 x ||L|| for iterative solvers and the propagator method (their own stopping tolerances)",
                       "uniqueness of the stationary state is checked on each generator (second smallest singular value > 1e-6) before it is used"]
    core.build_repo()
    proved = core.prove(rep, ["Qv.Model.C18", "Qv.Props.C18"], "Qv.Props.C18")
    if tier == "thorough":
        core.leanchecker(rep, ["Qv.Props.C18"])
    import qutip
    from qutip import data as _data
    import importlib
    ssmod = importlib.import_module('qutip.solver.steadystate')
    rng = np.random.default_rng(seed)
    viol = {}

    def v(sig, what, data):
        if sig not in viol:
            viol[sig] = (what, data)
    # ------------------------------------------------------------ correspondence
    lines, expect = [], []
    for _ in range(60 if tier == "quick" else 400):
        n = int(rng.integers(1, 9))
        perm = [int(x) for x in rng.permutation(n)]
        x = [int(t) for t in rng.integers(-50, 50, n)]
        col = _data.Dense(np.array(x, dtype=complex).reshape(n, 1))
        for dt in (_data.Dense, _data.CSR):
            got = _data.permute.indices(_data.to(dt, col), np.array(perm), None).to_array().ravel().real.astype(int).tolist()
            back = _data.permute.indices(_data.permute.indices(_data.to(dt, col), np.array(perm), None), np.argsort(perm), None).to_array().ravel().real.astype(int).tolist()
            lines.append("C18.scatter " + json.dumps({"perm": perm, "x": x}))
            expect.append(("scatter", {"scattered": got, "argsort": [int(t) for t in np.argsort(perm)], "back": back}))
        m = rng.integers(-9, 10, (n, n))
        for rp, cp in ((perm, perm), (perm, None), (None, perm)):
            for dt in (_data.Dense, _data.CSR):
                got = _data.permute.indices(_data.to(dt, _data.Dense(m.astype(complex))), None if rp is None else np.array(rp), None if cp is None else np.array(cp)).to_array().real.astype(int).tolist()
                case = {"m": m.tolist()}
                if rp is not None:
                    case["rperm"] = rp
                if cp is not None:
                    case["cperm"] = cp
                lines.append("C18.scatter_mat " + json.dumps(case))
                expect.append(("mat", got))
        rep.case({"perm": perm}, n >= 3)
        rep.count("perm-n=%d" % n)
    # the system handed to the solver by _steadystate_direct
    captured = {}
    orig_solve = _data.solve

    def spy(L, b, method=None, options=None):
        captured["L"], captured["b"] = L.to_array().copy(), b.to_array().copy()
        return orig_solve(L, b, method, options or {})
    for _ in range(12 if tier == "quick" else 80):
        n = int(rng.integers(2, 4))
        N = n * n
        A = rng.integers(-4, 5, (N, N)) + 1j * rng.integers(-4, 5, (N, N))
        w = int(rng.integers(1, 9))
        for fmt in ("dense", "csr", "dia"):
            Aq = qutip.Qobj(A, dims=[[[n], [n]], [[n], [n]]]).to(fmt)
            _data.solve = spy
            try:
                with warnings.catch_warnings():
                    warnings.simplefilter("ignore")
                    ssmod._steadystate_direct(Aq, w, method="solve" if fmt == "dense" else "spsolve")
            except Exception as e:            # noqa
                captured["error"] = repr(e)
            finally:
                _data.solve = orig_solve
            lines.append("C18.constraint " + json.dumps({"n": n, "A": [[[int(z.real), int(z.imag)] for z in row] for row in A], "w": w}))
            expect.append(("constraint", {k: (val.tolist() if hasattr(val, "tolist") else val) for k, val in captured.items()}))
            captured.clear()
            rep.count("constraint-" + fmt)
    model = core.run_driver(lines)
    ndis, first = 0, None
    for line, (kind, want), m in zip(lines, expect, model):
        ok = True
        if isinstance(m, dict) and "error" in m:
            ok = False
        elif kind == "scatter":
            ok = m == want
        elif kind == "mat":
            ok = m == want
        else:
            if "error" in want or "L" not in want:
                ok = False
            else:
                Lm = np.array([[complex(a, b) for a, b in row] for row in m["L"]])
                bm = np.array([complex(a, b) for a, b in m["b"]])
                ok = np.array_equal(Lm, np.array(want["L"])) and np.array_equal(bm, np.array(want["b"]).ravel())
        if not ok:
            ndis += 1
            if first is None:
                first = {"line": line[:400], "model": str(m)[:400], "impl": str(want)[:400]}
    rep.notes["correspondence_disagreements"] = ndis
    rep.notes["correspondence_lines"] = len(lines)
    if ndis:
        rep.broken.append({"kind": "correspondence", "count": ndis, "first": first})
    # ------------------------------------------------------------ oracle
    kinds = ["qubit", "qutrit", "cavity", "two-qubit", "exchange", "double-dot", "qubit-qutrit", "spin-cascade", "pumped-ladder", "cascade-x-qubit"]
    combos = [("direct", {}), ("direct", {"solver": "solve"}), ("direct", {"solver": "lstsq"}), ("direct", {"solver": "spsolve"}),
              ("direct", {"sparse": True}), ("direct", {"sparse": False}), ("direct", {"weight": 3.0}), ("direct", {"weight": 0.01}),
              ("direct", {"solver": "spsolve", "use_rcm": True}), ("direct", {"solver": "spsolve", "use_wbm": True}),
              ("direct", {"solver": "spsolve", "use_rcm": True, "use_wbm": True}),
              ("direct", {"solver": "gmres", "use_precond": True}), ("direct", {"solver": "lgmres", "use_precond": True}),
              ("direct", {"solver": "bicgstab", "use_precond": True}), ("direct", {"solver": "gmres", "use_precond": True, "use_rcm": True, "use_wbm": True}),
              ("direct", {"solver": "lgmres"}), ("direct", {"solver": "gmres"}),
              ("eigen", {}), ("eigen", {"sparse": False}), ("svd", {}),
              ("power", {}), ("power", {"solver": "solve"}), ("power", {"solver": "spsolve"}), ("power", {"solver": "spsolve", "use_rcm": True}),
              ("power", {"solver": "spsolve", "use_rcm": True, "use_wbm": True}), ("power", {"solver": "spsolve", "use_wbm": True}),
              ("power", {"solver": "gmres", "use_precond": True}), ("power", {"solver": "gmres", "use_precond": True, "use_rcm": True, "use_wbm": True}),
              ("power-gmres", {"use_precond": True, "use_rcm": True}), ("propagator", {}),
              # settings under which the inverse iteration may not converge: either an exception or a fixed point
              ("power", {"solver": "lstsq"}), ("power", {"power_maxiter": 2, "power_eps": 0.05}), ("power", {"power_maxiter": 3, "power_eps": 0.3}),
              ("power", {"power_maxiter": 1}), ("propagator", {"propagator_max_iter": 2}),
              # iterative linear solvers that run out of iterations
              ("direct", {"solver": "gmres", "maxiter": 1, "restart": 2}), ("direct", {"solver": "lgmres", "maxiter": 1}), ("direct", {"solver": "bicgstab", "maxiter": 1}),
              ("direct", {"solver": "gmres", "maxiter": 2, "restart": 2, "use_precond": False, "use_rcm": True})]
    loose = {"gmres", "lgmres", "bicgstab"}
    nsys = 10 if tier == "quick" else 40
    for si in range(nsys):
        kind = kinds[si % len(kinds)] if si < 2 * len(kinds) else str(rng.choice(kinds))
        H, c = rand_system(rng, kind)
        Lq = qutip.liouvillian(H, c)
        Lm = Lq.full()
        sv = np.linalg.svd(Lm, compute_uv=False)
        if sv[-2] < 1e-6 * sv[0]:
            rep.count("skipped-non-unique")
            continue
        normL = sv[0]
        dims = H.dims
        rep.case({"system": kind, "dim": H.shape[0]}, True)
        rep.count("system=" + kind)
        # reference: null vector by dense SVD, normalised
        _, _, vh = np.linalg.svd(Lm)
        ref = vh[-1].conj().reshape(H.shape[0], H.shape[0], order="F")
        ref = ref / np.trace(ref)
        # the same generator handed over in other forms: the Liouvillian alone, the unitary part plus every collapse operator,
        # part of the dissipators inside and the rest as c_ops - with a collapse operator whose c^dagger c is complex
        try:
            cx = 0.4 * (c[0] + 0.5j * qutip.Qobj(_rand_herm(rng, H.shape[0]), dims=c[0].dims))
            c_all = list(c) + [cx]
            Lall = qutip.liouvillian(H, c_all).full()
            svx = np.linalg.svd(Lall, compute_uv=False)
            if svx[-2] > 1e-6 * svx[0]:
                _, _, vhx = np.linalg.svd(Lall)
                refx = vhx[-1].conj().reshape(H.shape[0], H.shape[0], order="F")
                refx = refx / np.trace(refx)
                forms = {"H + c_ops": lambda f_: (H.to(f_), [x.to(f_) for x in c_all]), "the Liouvillian alone": lambda f_: (qutip.liouvillian(H, c_all).to(f_), []),
                         "the unitary part as a Liouvillian + c_ops": lambda f_: (qutip.liouvillian(H).to(f_), [x.to(f_) for x in c_all]),
                         "a Liouvillian holding part of the dissipators + the other c_ops": lambda f_: (qutip.liouvillian(H, c_all[:1]).to(f_), [x.to(f_) for x in c_all[1:]])}
                for fname_, mkf in forms.items():
                    for fmt_ in ("csr", "dense"):
                        for method_ in ("direct", "svd", "power"):
                            A_, cc_ = mkf(fmt_)
                            with warnings.catch_warnings():
                                warnings.simplefilter("ignore")
                                with core.time_limit(120):
                                    rx = qutip.steadystate(A_, cc_, method=method_)
                            rep.evaluations += 1
                            rep.count("input-form")
                            if np.abs(rx.full() - refx).max() > 1e-6:
                                v(f"input-form:{method_}", f"{kind}: steadystate given {fname_} ({fmt_}, {method_}) differs from the null vector of the full generator by {np.abs(rx.full() - refx).max():.2e} (trace {rx.tr():.6f})",
                                  {"system": kind, "form": fname_, "format": fmt_, "method": method_})
        except core.CaseTimeout:
            raise
        except Exception as e:
            rep.count("input-form-raises=" + type(e).__name__)
            rep.notes.setdefault("raising_combinations", {}).setdefault(f"input-form:{type(e).__name__}", str(e)[:120])
        results = {}
        for fmt in ("csr", "dense", "dia"):
            for method, kw in combos:
                if tier == "quick" and rng.random() < 0.45 and not (kw.get("use_rcm") and kw.get("use_wbm")):
                    continue
                name = f"{method}/{fmt}/" + ",".join(f"{k}={val}" for k, val in sorted(kw.items()))
                kw2 = dict(kw)
                if method == "propagator":
                    kw2["rho"] = qutip.maximally_mixed_dm(dims[0]) if False else qutip.Qobj(np.eye(H.shape[0]) / H.shape[0], dims=dims)
                    kw2["propagator_tol"] = 1e-9
                try:
                    with warnings.catch_warnings():
                        warnings.simplefilter("ignore")
                        with core.time_limit(120):
                            rho = qutip.steadystate(H.to(fmt), [x.to(fmt) for x in c], method=method, **kw2)
                except core.CaseTimeout:
                    raise
                except Exception as e:
                    rep.count("raises=" + type(e).__name__)
                    rep.notes.setdefault("raising_combinations", {}).setdefault(f"{method}:{type(e).__name__}", name + ": " + str(e)[:100])
                    continue
                rep.evaluations += 1
                rep.count("method=" + method)
                is_loose = (kw.get("solver") in loose) or method in ("propagator", "power-gmres") or (kw.get("solver") == "lstsq" and fmt != "dense")
                tol = (1e-4 if is_loose else 1e-7)
                R = rho.full()
                data = {"system": kind, "H": str(H.full().tolist()), "c_ops": [str(x.full().tolist()) for x in c], "format": fmt, "method": method, "options": {k: str(val) for k, val in kw.items()}}
                res = np.abs(Lm @ R.reshape(-1, order="F")).max()
                if res > tol * normL:
                    v(f"residual:{method}:{','.join(sorted(kw))}", f"steadystate {name} on a {kind} system: |L rho| = {res:.2e} (bound {tol * normL:.1e})", data)
                if np.abs(R - R.conj().T).max() > 1e-9 * max(1, np.abs(R).max()) and not is_loose:
                    v(f"hermitian:{method}", f"steadystate {name}: result not Hermitian ({np.abs(R - R.conj().T).max():.1e})", data)
                if abs(np.trace(R) - 1) > (1e-4 if is_loose else 1e-9):
                    v(f"trace:{method}:{','.join(sorted(kw))}", f"steadystate {name}: trace {np.trace(R)}", data)
                ev = np.linalg.eigvalsh((R + R.conj().T) / 2)
                if ev.min() < -(1e-4 if is_loose else 1e-8):
                    v(f"positive:{method}", f"steadystate {name}: eigenvalue {ev.min():.2e}", data)
                if rho.dims != dims:
                    v(f"dims:{method}", f"steadystate {name}: dims {rho.dims} instead of {dims}", data)
                if np.abs(R - ref).max() > (1e-3 if is_loose else 1e-6):
                    v(f"agreement:{method}:{','.join(sorted(kw))}", f"steadystate {name} on a {kind} system differs from the normalised null vector of L by {np.abs(R - ref).max():.2e}", data)
                results[name] = R
        # Liouvillian input and long-time limit
        try:
            rL = qutip.steadystate(Lq).full()
            if np.abs(rL - ref).max() > 1e-6:
                v("agreement:liouvillian-input", f"steadystate(L) for a {kind} system differs from the null vector by {np.abs(rL - ref).max():.1e}", {"system": kind})
            # the same generator given in every way the signature allows: Liouvillian only, Liouvillian of the Hamiltonian
            # plus all collapse operators, Liouvillian with some of them plus the rest
            if len(c) >= 1:
                splits = [("L(H) + all c_ops", qutip.liouvillian(H), list(c))]
                if len(c) >= 2:
                    splits.append(("L(H, some c_ops) + the other c_ops", qutip.liouvillian(H, c[:1]), list(c[1:])))
                for sname, Lpart, crest in splits:
                    for meth in ("direct", "eigen", "svd", "power"):
                        for fmt_ in ("csr", "dense"):
                            try:
                                with warnings.catch_warnings():
                                    warnings.simplefilter("ignore")
                                    rS = qutip.steadystate(Lpart.to(fmt_), crest, method=meth).full()
                            except Exception as e:      # noqa
                                rep.count("split-raises=" + type(e).__name__)
                                continue
                            rep.evaluations += 1
                            rep.count("generator-split")
                            if np.abs(rS - ref).max() > 1e-5:
                                v(f"agreement:split:{meth}", f"steadystate({sname}, method={meth}, {fmt_}) for a {kind} system differs from the steady state of the whole generator by {np.abs(rS - ref).max():.1e}", {"system": kind, "method": meth, "split": sname})
            gap = -np.sort(np.linalg.eigvals(Lm).real)[-2]
            if gap > 0.05:
                T = 25.0 / gap
                out = qutip.mesolve(H, qutip.Qobj(np.eye(H.shape[0]) / H.shape[0], dims=dims), [0, T / 2, T], c, options={"atol": 1e-10, "rtol": 1e-8, "nsteps": 10 ** 6})
                if np.abs(out.states[-1].full() - ref).max() > 1e-5:
                    v("agreement:long-time-mesolve", f"{kind}: the steady state differs from mesolve at t={T:.1f} by {np.abs(out.states[-1].full() - ref).max():.1e}", {"system": kind})
                rep.count("long-time-limit")
        except Exception as e:      # noqa
            v("liouvillian-input:raises", f"steadystate(L) raises {type(e).__name__}: {e}"[:200], {"system": kind})
        # pseudo inverse: defining relations with Q = 1 - |rho>><<1|
        for fmt, method, w, kw in (("dense", "direct", None, {}), ("csr", "splu", None, {}), ("csr", "splu", 0.5, {}), ("dense", "solve", 0.3, {}), ("csr", "spsolve", 0.7, {}),
                                   ("dense", "pinv", None, {}), ("csr", "splu", 0.5, {"use_rcm": True}), ("csr", "pinv", None, {"use_rcm": True}), ("dense", "splu", 0.4, {"use_rcm": True}),
                                   ("csr", "scipy", None, {"use_rcm": True}), ("csr", "direct", 0.6, {"sparse": True, "use_rcm": True}), ("dia", "splu", 0.3, {})):
            Lf = Lq.to(fmt)
            Lbefore = Lf.full().copy()
            try:
                with warnings.catch_warnings():
                    warnings.simplefilter("ignore")
                    Rq = qutip.pseudo_inverse(Lf, w=w, method=method, **kw)
                    Rq2 = qutip.pseudo_inverse(Lf, w=w, method=method, **kw)
            except Exception as e:
                rep.count("pinv-raises=" + type(e).__name__)
                continue
            rep.evaluations += 1
            rep.count("pseudo_inverse")
            n2 = Lm.shape[0]
            Pm = ref.reshape(-1, 1, order="F") @ np.eye(H.shape[0]).reshape(1, -1, order="F")
            Qm = np.eye(n2) - Pm
            Ls = Lbefore + 1j * (w or 0.0) * np.eye(n2)
            Rm = Rq.full()
            scale = max(1.0, np.abs(Rm).max())
            data = {"system": kind, "format": fmt, "method": method, "w": w, "options": kw}
            method = method + ("+rcm" if kw.get("use_rcm") else "")
            if np.abs(Ls @ Rm - Qm).max() > 1e-5 * scale or np.abs(Rm @ Ls - Qm).max() > 1e-5 * scale:
                v(f"pseudo-inverse:relations:{method}", f"pseudo_inverse({fmt}, {method}, w={w}) on a {kind} system: |L R - Q| = {np.abs(Ls @ Rm - Qm).max():.1e}", data)
            if np.abs(Pm @ Rm).max() > 1e-6 * scale or np.abs(Rm @ Pm).max() > 1e-6 * scale:
                v(f"pseudo-inverse:projector:{method}", f"pseudo_inverse({fmt}, {method}, w={w}): P R or R P does not vanish", data)
            if not np.array_equal(Lf.full(), Lbefore):
                v("pseudo-inverse:mutates-L", f"pseudo_inverse({fmt}, {method}, w={w}) changed the Liouvillian it was given", data)
            if np.abs(Rq2.full() - Rm).max() > 1e-8 * scale:
                v("pseudo-inverse:repeat", f"pseudo_inverse({fmt}, {method}, w={w}): a second call with the same Liouvillian gives a different result", data)
            if Rq.dims != Lq.dims:
                v("pseudo-inverse:dims", f"pseudo_inverse dims {Rq.dims}", data)
    # hierarchy steady state
    try:
        from qutip.solver.heom import HEOMSolver, DrudeLorentzBath
        for lam, depth in ((0.05, 2), (0.1, 3)):
            Hs = 0.5 * qutip.sigmaz() + 0.3 * qutip.sigmax()
            bath = DrudeLorentzBath(qutip.sigmaz(), lam=lam, gamma=1.0, T=1.0, Nk=1)
            hs = HEOMSolver(qutip.liouvillian(Hs, [0.3 * qutip.sigmam()]), bath, max_depth=depth, options={"progress_bar": "", "nsteps": 15000})
            for kw in ({}, {"use_mkl": False}):
                rho, ados = hs.steady_state(**kw)
                full = ados._ado_state if hasattr(ados, "_ado_state") else None
                R = rho.full()
                rep.evaluations += 1
                rep.count("heom-steady-state")
                data = {"lam": lam, "depth": depth}
                if abs(np.trace(R) - 1) > 1e-9 or np.abs(R - R.conj().T).max() > 1e-9 or np.linalg.eigvalsh(R).min() < -1e-9:
                    v("heom:state", f"HEOM steady state is not a density matrix: trace {np.trace(R)}", data)
                # fixed point of the hierarchy generator
                gen = hs.rhs(0).full() if hasattr(hs, "rhs") and callable(getattr(hs, "rhs", None)) else hs.rhs.to_list()[0].full()
                vec = np.concatenate([np.asarray(ados.extract(lbl).full()).reshape(-1) for lbl in ados.filter()]) if False else np.asarray(ados._ado_state).reshape(-1)
                res = np.abs(gen @ vec).max()
                if res > 1e-7 * max(1, np.abs(gen).max()):
                    v("heom:residual", f"HEOM steady state is not a fixed point of the hierarchy generator: {res:.1e}", data)
                long = hs.run(qutip.basis(2, 0).proj(), [0, 60, 120]).states[-1].full()
                if np.abs(long - R).max() > 1e-5:
                    v("heom:long-time", f"HEOM steady state differs from the long-time evolution by {np.abs(long - R).max():.1e}", data)
        # generic couplings: complex Hamiltonians, coupling operators with off-diagonal elements in every row,
        # one or two baths at different temperatures (stationary states carrying a current)
        hrng = np.random.default_rng(seed * 7919 + 18)
        for case in range(4 if tier == "quick" else 12):
            d = 2 if case % 3 else 3
            Hs = qutip.Qobj(_rand_herm(hrng, d)) * 0.6
            Qs = [qutip.Qobj(_rand_herm(hrng, d)) for _ in range(1 + case % 2)]
            baths = [DrudeLorentzBath(Q, lam=float(hrng.uniform(0.02, 0.08)), gamma=float(hrng.uniform(0.6, 1.4)),
                                      T=float(hrng.uniform(0.5, 2.0)), Nk=1) for Q in Qs]
            cops = [0.4 * qutip.destroy(d)]
            hs = HEOMSolver(qutip.liouvillian(Hs, cops), baths, max_depth=2, options={"progress_bar": "", "nsteps": 50000})
            with core.time_limit(120):
                rho, ados = hs.steady_state()
                long = hs.run(qutip.basis(d, 0).proj(), [0, 100, 200]).states[-1].full()
            R = rho.full()
            rep.evaluations += 1
            rep.count("heom-steady-state-generic")
            data = {"case": case, "H": str(Hs.full().tolist()), "Q": [str(Q.full().tolist()) for Q in Qs]}
            if abs(np.trace(R) - 1) > 1e-9 or np.abs(R - R.conj().T).max() > 1e-9:
                v("heom:state", f"HEOM steady state is not a normalised Hermitian operator: trace {np.trace(R)}", data)
            gen = hs.rhs(0).full()
            res = np.abs(gen @ np.asarray(ados._ado_state).reshape(-1)).max()
            if res > 1e-7 * max(1, np.abs(gen).max()):
                v("heom:residual", f"HEOM steady state is not a fixed point of the hierarchy generator: {res:.1e}", data)
            if np.abs(long - R).max() > 1e-4:
                v("heom:long-time", f"HEOM steady state differs from the long-time evolution by {np.abs(long - R).max():.1e}", data)
    except ImportError:
        pass
    for sig, (what, data) in viol.items():
        rep.violation(core.Violation("C18:" + sig, what, data))
    if (ndis or not proved) and not rep.violations:
        rep.violation(core.Violation("C18:unverified", "model/proof no longer matches the code and no failing input was found",
                                     {"broken": rep.broken}, failing_input_found=False))
    return rep.finish()


if __name__ == "__main__":
    core.main(run, PID)
