"""C11 — solver answers do not depend on output schedule or on the object's past use.

(a) Propagator memo: the real `qutip.Propagator` is driven with a fake Solver whose flow is an exact
    product of integer SL(2,Z) matrices on integer times (non-commuting, so a wrong composition
    shows); random query sequences (any order, repeats, decreasing, negative, t_start, memo sizes)
    are compared with the Lean model Qv.Model.C11 and with the property's own oracle
    U(t, t_start) = G(t) G(t_start)^-1.
(b) Relational checks on the real solvers: one problem under different output partitions,
    consecutive runs restarted from stored states, start/step, earlier use of the same object
    (other states, other shapes, other time ranges), interleaved solver objects.
"""
import json
import warnings
import os
import sys

import numpy as np

sys.path.insert(0, os.path.dirname(os.path.abspath(__file__)))
import core

PID = "C11"


# ---------------------------------------------------------------------------
# exact flow
def gen(cte, k, w=0):
    if cte:
        return np.array([[1, 1], [0, 1]], dtype=object)
    return np.array([[1, w + 1], [0, 1]], dtype=object) if k % 2 == 0 else np.array([[1, 0], [1, 1]], dtype=object)


def inv2(m):
    return np.array([[m[1, 1], -m[0, 1]], [-m[1, 0], m[0, 0]]], dtype=object)


def bigG(cte, t, w=0):
    acc = np.array([[1, 0], [0, 1]], dtype=object)
    if t >= 0:
        for k in range(t):
            acc = gen(cte, k + 1, w).dot(acc)
    else:
        for k in range(-t):
            acc = inv2(gen(cte, -k, w)).dot(acc)
    return acc


def phi(cte, b, a, w=0):
    return bigG(cte, b, w).dot(inv2(bigG(cte, a, w)))


def make_fake_solver(cte):
    import qutip
    from qutip.solver.solver_base import Solver

    class _Integ:
        def __init__(self, owner):
            self.o = owner

        def get_state(self, copy=True):
            return self.o.t, self.o.state

    class _Rhs:
        isconstant = cte

        def __call__(self, t):
            # not Hermitian: the propagator must use a genuine inverse
            return qutip.Qobj(np.array([[0., 1.], [0., 0.]]))

    class FakeSolver(Solver):
        name = "fake"

        def __init__(self):
            self.t = 0
            self.w = 0
            self.state = None
            self._integrator = _Integ(self)
            self.rhs = _Rhs()
            self.calls = []

        @property
        def sys_dims(self):
            return [2]

        def start(self, state0, t0):
            self.calls.append(("start", int(round(t0))))
            self.t = int(round(t0))
            self.state = state0.copy()

        def step(self, t, *, args=None, copy=True):
            t = int(round(t))
            self.calls.append(("step", t))
            m = np.array(phi(cte, t, self.t, self.w).astype(float))
            self.state = qutip.Qobj(m) @ self.state
            self.t = t
            return self.state.copy()

        def _argument(self, args):
            self.calls.append(("args", dict(args)))
            self.w = int(args.get("w", 0))

    return FakeSolver()


def run_real_prop(case):
    import qutip
    sol = make_fake_solver(case["cte"])
    P = qutip.Propagator(sol, memoize=case["memoize"], tol=1e-14)
    answers = []
    for q in case["queries"]:
        t, s = q[0], q[1]
        if len(q) > 2 and q[2] is not None:
            U = P(t, s, w=q[2])
        else:
            U = P(t, s)
        m = np.real(U.full())
        answers.append([float(m[0, 0]), float(m[0, 1]), float(m[1, 0]), float(m[1, 1])])
    return {"answers": answers, "times": [int(round(x)) for x in P.times], "t_last": int(sol.t)}


def oracle_prop(case, real):
    probs = []
    w = 0
    for q, ans in zip(case["queries"], real["answers"]):
        t, s = q[0], q[1]
        if len(q) > 2 and q[2] is not None and not case["cte"]:
            w = q[2]
        want = phi(case["cte"], t, s, w)
        wl = [float(want[0, 0]), float(want[0, 1]), float(want[1, 0]), float(want[1, 1])]
        scale = 1 + max(abs(x) for x in wl)
        if max(abs(a - b) for a, b in zip(ans, wl)) > 1e-6 * scale:
            kind = "backward" if (t < 0 or s < 0) else "forward"
            if any(len(x) > 2 for x in case["queries"]):
                kind = "args"
            probs.append((f"propagator-{kind}", f"U({t},{s}) = {ans} but a fresh propagator gives {wl} (args w={w})"))
            break
    ts = real["times"]
    if ts != sorted(set(ts)):
        probs.append(("memo-order", f"memoised times not strictly increasing: {ts}"))
    if len(ts) > max(3, case["memoize"]):
        probs.append(("memo-size", f"{len(ts)} memoised propagators with memoize={case['memoize']}"))
    return probs


def gen_prop(rng, tier):
    n = int(rng.integers(1, 9 if tier == "quick" else 30))
    # the exact integer flows are shears: entries grow slowly, so the float inverse the real Propagator
    # takes is exact to rounding even over long histories (a hyperbolic generator has condition 1e13
    # at |t| = 8 and the rounding of its inverse leaks into later answers at the 1e-5 level)
    T = 8
    style = rng.integers(0, 4)
    with_args = rng.random() < 0.4
    qs = []
    for _ in range(n):
        if style == 0:
            t = int(rng.integers(0, T + 1))
        elif style == 1:
            t = int(rng.integers(-T, 1))
        else:
            t = int(rng.integers(-T, T + 1))
        s = 0 if rng.random() < 0.6 else int(rng.integers(-T // 2, T // 2 + 1))
        if rng.random() < 0.1 and qs:
            t, s = qs[int(rng.integers(0, len(qs)))][:2]
        if with_args and rng.random() < 0.4:
            qs.append([t, s, int(rng.integers(0, 3))])
        else:
            qs.append([t, s])
    return {"cte": bool(rng.random() < 0.3), "memoize": int(rng.integers(0, 8)), "queries": qs}


def shrink_prop(case, bad):
    cur = case
    changed = True
    while changed:
        changed = False
        for j in range(len(cur["queries"]) - 1, -1, -1):
            cand = dict(cur, queries=cur["queries"][:j] + cur["queries"][j + 1:])
            if cand["queries"] and bad(cand):
                cur, changed = cand, True
                break
    return cur


# ---------------------------------------------------------------------------
# (b) relational checks on real solvers
def relational(rep, rng, tier):
    import qutip
    viol = []
    methods = ["adams", "bdf", "lsoda", "dop853", "vern7", "vern9", "diag", "krylov"]
    if tier == "quick":
        methods = [m for m in methods if m in ("adams", "vern7", "dop853", "lsoda", "krylov", "diag")]
    for method in methods:
        N = 8 if method == "krylov" else 3
        for trial in range(1 if tier == "quick" else 3):
            H0 = qutip.rand_herm(N, seed=int(rng.integers(1 << 30)))
            H1 = qutip.rand_herm(N, seed=int(rng.integers(1 << 30)))
            td = method not in ("diag", "krylov") and trial % 2 == 0
            H = qutip.QobjEvo([H0, [H1, "cos(t)"]]) if td else H0
            psi0 = qutip.rand_ket(N, seed=int(rng.integers(1 << 30)))
            psi_other = qutip.rand_ket(N, seed=int(rng.integers(1 << 30)))
            opts = {"method": method, "progress_bar": ""}
            tol = 1e-5
            if method in ("adams", "bdf", "lsoda", "dop853", "vern7", "vern9", "tsit5"):
                opts.update(atol=1e-10, rtol=1e-8)
                tol = 2e-6
            if method == "rk4":
                opts.update(dt=1e-3)
            if method == "krylov":
                opts.update(krylov_dim=3, nsteps=100000)
            tend = 1.0
            full = np.linspace(0, tend, 9)
            try:
                with core.time_limit(120):
                    ref = qutip.SESolver(H, options=opts).run(psi0, full).states
                    refd = {round(float(t), 9): s for t, s in zip(full, ref)}
                    # 1. other partition of the interval
                    part = np.array([0, 0.125, 0.5, 1.0])
                    s1 = qutip.SESolver(H, options=opts).run(psi0, part).states
                    # 2. consecutive runs restarted from stored states, same solver object
                    so = qutip.SESolver(H, options=opts)
                    r1 = so.run(psi0, [0, 0.5]).states[-1]
                    r2 = so.run(r1, [0.5, 1.0]).states[-1]
                    # 3. start/step
                    so3 = qutip.SESolver(H, options=opts)
                    so3.start(psi0, 0)
                    st = [so3.step(t) for t in (0.25, 0.5, 1.0)]
                    # 4. the same solver object used before on another state / time range / shape
                    so4 = qutip.SESolver(H, options=opts)
                    so4.run(psi_other, [0.3, 0.7, 2.0])
                    if method != "krylov":                     # krylov evolves state vectors only
                        so4.run(qutip.qeye(N), [0, 0.4])       # operator-shaped state (propagator)
                    s4 = so4.run(psi0, part).states
                    # 4b. earlier use on a special state (eigenstate of the generator at t=0: integrators that
                    #     cache state-dependent data - Krylov bases, step sizes - see a degenerate case) and
                    #     over a long range
                    eig = (H(0) if td else H).eigenstates()[1][0]
                    so6 = qutip.SESolver(H, options=opts)
                    so6.run(eig, [0, 3.0, 9.0])
                    s6 = so6.run(psi0, full).states
                    # 5. another solver object stepped in between
                    so5a, so5b = qutip.SESolver(H, options=opts), qutip.SESolver(H, options=opts)
                    so5a.start(psi0, 0); so5b.start(psi_other, 0)
                    a1 = so5a.step(0.5); so5b.step(0.8); a2 = so5a.step(1.0)
                    # 5b. options changed on a used solver object (tolerances, then the integration method and back): the next
                    #     run is the run of a solver built with those options
                    so7 = qutip.SESolver(H, options=opts)
                    so7.run(psi_other, [0, 0.6])
                    if method in ("adams", "bdf", "lsoda", "dop853", "vern7", "vern9"):
                        so7.options["atol"] = 1e-4
                        so7.options["rtol"] = 1e-3
                        so7.run(psi0, [0, 0.5])
                        so7.options["atol"] = opts["atol"]
                        so7.options["rtol"] = opts["rtol"]
                    other_method = "dop853" if method != "dop853" else "vern7"
                    so7.options = {"method": other_method, "progress_bar": "", "atol": 1e-10, "rtol": 1e-8}
                    o7a = so7.run(psi0, part).states
                    so7.options = dict(opts)
                    o7b = so7.run(psi0, part).states
                    # 6. master-equation solvers built from one and the same time-dependent Liouvillian object: giving one of
                    #    them new arguments in between does not reach the other
                    extra = []
                    if td:
                        Lw = qutip.QobjEvo([qutip.liouvillian(H0), [qutip.liouvillian(H1), lambda t, w: np.cos(w * t)]], args={"w": 1.0})
                        rho0, rho_o = qutip.ket2dm(psi0), qutip.ket2dm(psi_other)
                        refL = qutip.MESolver(Lw, options=opts).run(rho0, [0, 0.5, 1.0]).states
                        m1, m2 = qutip.MESolver(Lw, options=opts), qutip.MESolver(Lw, options=opts)
                        m1.start(rho0, 0)
                        b1 = m1.step(0.5)
                        m2.run(rho_o, [0, 0.3], args={"w": 2.5})
                        b2 = m1.step(1.0)
                        b3 = m1.run(rho0, [0, 0.5, 1.0]).states[-1]
                        b4 = qutip.MESolver(Lw, options=opts).run(rho0, [0, 0.5, 1.0]).states[-1]
                        extra = [("shared-generator-object", b1, refL[1]), ("shared-generator-object", b2, refL[2]),
                                 ("shared-generator-object", b3, refL[2]), ("shared-generator-object", b4, refL[2])]
            except Exception as e:
                if type(e).__name__ == "IntegratorException":      # the integrator gives up: a refusal, not a wrong state
                    rep.count("integrator-refused:" + method)
                    continue
                viol.append((f"solver-reuse-raises:{method}", f"{method}: {type(e).__name__}: {e}"[:300],
                             {"method": method, "td": td}))
                continue
            pairs = [("partition", s1[-1], refd[1.0]), ("partition", s1[2], refd[0.5]),
                     ("restart", r2, refd[1.0]), ("start-step", st[-1], refd[1.0]), ("start-step", st[0], refd[0.25]),
                     ("past-use", s4[-1], refd[1.0]), ("past-use", s4[1], refd[0.125]),
                     ("past-use-eigenstate", s6[-1], refd[1.0]), ("past-use-eigenstate", s6[4], refd[0.5]),
                     ("interleaved", a2, refd[1.0]), ("interleaved", a1, refd[0.5]),
                     ("options-changed", o7a[-1], refd[1.0]), ("options-changed-back", o7b[-1], refd[1.0]), ("options-changed-back", o7b[2], refd[0.5])] + extra
            for name, got, want in pairs:
                err = (got - want).norm()
                rep.count("relational-" + name)
                rep.evaluations += 1
                if err > tol:
                    viol.append((f"schedule-dependence:{name}:{method}",
                                 f"{method} ({'td' if td else 'const'}): state differs by {err:.2e} between {name} and a single run (tol {tol})",
                                 {"method": method, "td": td, "kind": name, "error": float(err)}))
    # a drift-free Hamiltonian that is exactly zero between short pulses, with the step length bounded by `max_step`: the state
    # after the pulse does not depend on how the interval is cut into runs or output times
    def pulse(t):
        return float(np.pi / 2 / 0.4) if 4.8 <= t < 5.2 else 0.0
    Hp = qutip.QobjEvo([[qutip.sigmax(), pulse]])
    up = qutip.basis(2, 0)
    for method in ("vern7", "vern9", "adams", "dop853", "lsoda", "bdf"):
        o = {"method": method, "max_step": 0.1, "atol": 1e-10, "rtol": 1e-8, "nsteps": 100000, "progress_bar": ""}
        try:
            with core.time_limit(120):
                one = qutip.SESolver(Hp, options=o).run(up, [0, 10]).states[-1]
                many = qutip.SESolver(Hp, options=o).run(up, np.linspace(0, 10, 101)).states[-1]
                sp = qutip.SESolver(Hp, options=o)
                half = sp.run(up, [0, 5]).states[-1]
                two = sp.run(half, [5, 10]).states[-1]
                ss = qutip.SESolver(Hp, options=o)
                ss.start(up, 0)
                stepped = [ss.step(t) for t in (2.5, 5.0, 7.5, 10.0)][-1]
        except core.CaseTimeout:
            raise
        except Exception as e:
            if type(e).__name__ == "IntegratorException":
                continue
            viol.append((f"pulse-raises:{method}", f"{method}: {type(e).__name__}: {e}"[:200], {"method": method}))
            continue
        exact = (-1j * (np.pi / 2) * qutip.sigmax()).expm() * up
        for name, got in (("one run", one), ("101 output times", many), ("two consecutive runs", two), ("start / step", stepped)):
            rep.evaluations += 1
            rep.count("relational-pulse")
            err = (got - exact).norm()
            if err > 1e-5:
                viol.append((f"schedule-dependence:pulse:{method}", f"{method} with max_step=0.1 on a Hamiltonian that vanishes between pulses: {name} misses the pulse result by {err:.2e}", {"method": method, "schedule": name}))
                break
    # the real Propagator on closed systems whose generator says nothing at t = 0 about later times (vanishing or Hermitian at
    # t = 0, lossy afterwards), on Hermitian ones and on constant ones: every answer against a fresh integration
    so = {"atol": 1e-12, "rtol": 1e-10, "nsteps": 100000, "progress_bar": ""}
    loss = qutip.sigmax() - 0.5j * qutip.num(2)
    systems = {"vanishing-at-0": qutip.QobjEvo([[loss, "sin(t)"]]),
               "hermitian-at-0": qutip.QobjEvo([qutip.sigmaz(), [-0.5j * qutip.num(2), "sin(t)**2"]]),
               "antihermitian-at-0": qutip.QobjEvo([0.3j * qutip.sigmaz(), [qutip.sigmax(), "t"]]),
               "hermitian-td": qutip.QobjEvo([qutip.sigmaz(), [qutip.sigmax(), "cos(2*t)"]]),
               "constant-hermitian": qutip.sigmax() + 0.3 * qutip.sigmaz(), "constant-lossy": loss}
    for name, Hs in systems.items():
        try:
            with core.time_limit(120):
                P = qutip.Propagator(Hs, options=so)
                qs = [(2.0, 1.0), (1.5, 0.5), (1.0, 0.0), (0.5, 1.5), (2.0, 1.0), (-0.5, 0.0)]
                got = [P(t, s) for t, s in qs]
                fresh = [qutip.Propagator(Hs, options=so)(t, s) if t < s or t < 0 else qutip.propagator(Hs, [s, t], options=so)[-1] for t, s in qs]
                inv_err = (P.inv(1.5) @ P(1.5) - qutip.qeye(2)).norm()
                comp_err = (P(2.0, 1.0) @ P(1.0, 0.0) - P(2.0, 0.0)).norm()
                back = (P(0.5, 1.5) @ P(1.5, 0.5) - qutip.qeye(2)).norm()
        except core.CaseTimeout:
            raise
        except Exception as e:
            viol.append((f"real-propagator-raises:{name}", f"Propagator on a {name} system: {type(e).__name__}: {e}"[:200], {"system": name}))
            continue
        rep.count("relational-real-propagator")
        rep.evaluations += len(qs) + 3
        tolp = 2e-5 if name == "constant-hermitian" else 1e-6
        for (t, s), g, f in zip(qs, got, fresh):
            if (g - f).norm() > tolp:
                viol.append(("real-propagator:" + ("backward" if t < s or t < 0 else "t_start"), f"Propagator on a {name} system: U({t}, {s}) differs from a fresh computation by {(g - f).norm():.2e}", {"system": name, "t": t, "t_start": s}))
                break
        if inv_err > tolp:
            viol.append(("real-propagator:inv", f"Propagator on a {name} system: inv(1.5) @ U(1.5) misses the identity by {inv_err:.2e}", {"system": name}))
        if comp_err > tolp or back > tolp:
            viol.append(("real-propagator:compose", f"Propagator on a {name} system: U(2,1) U(1,0) misses U(2,0) by {comp_err:.2e}, U(0.5,1.5) U(1.5,0.5) misses the identity by {back:.2e}", {"system": name}))
    # Floquet solvers: the state reported for time t does not depend on where the run was (re)started - inside the first
    # period, exactly at a period, or several periods later - nor on the interface; fsesolve starts at tlist[0]
    try:
        Tf = 1.0
        Hf = qutip.QobjEvo([0.5 * qutip.sigmaz(), [0.8 * qutip.sigmax(), "cos(2*pi*t)"]])
        psif = (qutip.basis(2, 0) + 0.5j * qutip.basis(2, 1)).unit()
        tlf = np.array([0.0, 0.4, 0.65, 1.0, 1.3, 2.0, 2.75, 3.1])
        with core.time_limit(300):
            fb = qutip.FloquetBasis(Hf, Tf, options={"atol": 1e-12, "rtol": 1e-10})
            seref = qutip.sesolve(Hf, psif, tlf, options={"atol": 1e-12, "rtol": 1e-10, "progress_bar": ""}).states
            for k0 in (0, 2, 3, 4, 6):
                rr = qutip.fsesolve(Hf, seref[k0], tlf[k0:], T=Tf).states
                rep.evaluations += 1
                rep.count("relational-floquet")
                errs = [float((a - b).norm()) for a, b in zip(rr, seref[k0:])]
                if max(errs) > 2e-5:
                    viol.append(("floquet:fsesolve-start", f"fsesolve started at t={tlf[k0]} from the exact state differs from the evolution by {max(errs):.2e} (at its first time: {errs[0]:.2e})", {"t0": float(tlf[k0])}))
                    break
            for t in (0.0, 0.3, 1.0, 1.3, 2.75):
                rt = fb.from_floquet_basis(fb.to_floquet_basis(psif, t), t)
                rep.evaluations += 1
                if (rt - psif).norm() > 1e-6:
                    viol.append(("floquet:basis-round-trip", f"FloquetBasis: to_floquet_basis then from_floquet_basis at t={t} changes the state by {(rt - psif).norm():.2e}", {"t": t}))
                    break
            fm = qutip.FMESolver(fb, [(qutip.sigmax(), lambda w: 0.05 * (w > 0))], options={"atol": 1e-12, "rtol": 1e-10, "progress_bar": "", "store_states": True})
            rho0 = psif.proj()
            single = fm.run(rho0, tlf).states
            for k0 in (2, 3, 4, 6):
                again = qutip.FMESolver(fb, [(qutip.sigmax(), lambda w: 0.05 * (w > 0))], options={"atol": 1e-12, "rtol": 1e-10, "progress_bar": "", "store_states": True}).run(single[k0], tlf[k0:]).states
                fm.start(single[k0], tlf[k0])
                stepped = [fm.step(t) for t in tlf[k0 + 1:]]
                rep.evaluations += 2
                rep.count("relational-floquet")
                e1 = max(float((a - b).norm()) for a, b in zip(again, single[k0:]))
                e2 = max(float((a - b).norm()) for a, b in zip(stepped, single[k0 + 1:]))
                if e1 > 1e-5 or e2 > 1e-5:
                    viol.append(("floquet:restart", f"FMESolver restarted at t={tlf[k0]} from its own stored state: run differs from the single run by {e1:.2e}, start/step by {e2:.2e}", {"t0": float(tlf[k0])}))
                    break
    except core.CaseTimeout:
        raise
    except Exception as e:
        viol.append(("floquet-raises", f"{type(e).__name__}: {e}"[:200], {}))
    # options assigned to a used solver are the options of the next run, whatever the old values were
    for old_m, new_m in (("adams", "vern7"), ("vern7", "adams"), ("dop853", "dop853"), ("lsoda", "bdf")):
        base = {"method": old_m, "atol": 1e-11, "rtol": 1e-9, "nsteps": 5000, "progress_bar": ""}
        given = {"method": new_m, "atol": 1e-11, "rtol": 1e-7, "nsteps": 5000, "progress_bar": ""}
        try:
            sv = qutip.SESolver(qutip.sigmax(), options=base)
            sv.run(qutip.basis(2, 0), [0, 0.1])
            sv.options = dict(given)
            frs = qutip.SESolver(qutip.sigmax(), options=dict(given))
        except Exception as e:
            viol.append(("options-raises", f"{type(e).__name__}: {e}"[:200], {"old": old_m, "new": new_m}))
            continue
        rep.count("relational-options-kept")
        for key in ("method", "atol", "rtol", "nsteps"):
            rep.evaluations += 1
            io = getattr(sv._integrator, "options", {})
            if sv.options[key] != given[key] or sv.options[key] != frs.options[key] or (key != "method" and key in io and io[key] != given[key]):
                viol.append((f"options-kept:{key}", f"solver built with {old_m} (atol 1e-11) given options {given}: option {key} is {sv.options[key]} (integrator: {io.get(key)}), a fresh solver has {frs.options[key]}", {"old": old_m, "new": new_m, "key": key}))
    # arguments handed over in one dictionary object that the caller updates in place between calls (a parameter sweep, a drive
    # value changed during stepping): every call uses the values the dictionary holds at that moment
    for method in (("adams", "vern7", "dop853") if tier == "quick" else ("adams", "bdf", "lsoda", "dop853", "vern7", "vern9")):
        o = {"method": method, "atol": 1e-10, "rtol": 1e-8, "progress_bar": ""}
        Hd = qutip.QobjEvo([qutip.sigmaz(), [qutip.sigmax(), lambda t, a: a * np.cos(t)]], args={"a": 0.0})
        try:
            with core.time_limit(120):
                for cls_, st_ in ((qutip.SESolver, qutip.basis(2, 0)), (qutip.MESolver, qutip.fock_dm(2, 0))):
                    reused = cls_(Hd, options=o)
                    d_ = {"a": 0.0}
                    worst = 0.0
                    for a_ in (0.5, 1.25, -0.75):
                        d_["a"] = a_
                        got = reused.run(st_, [0, 0.6, 1.3], args=d_).states[-1]
                        want = cls_(Hd, options=o).run(st_, [0, 0.6, 1.3], args={"a": a_}).states[-1]
                        worst = max(worst, (got - want).norm())
                    rep.evaluations += 1
                    rep.count("relational-args-dict-in-place")
                    if worst > 2e-6:
                        viol.append((f"schedule-dependence:args-dict-updated-in-place:{method}", f"{method} ({cls_.__name__}): runs given one args dictionary that the caller updates in place differ from fresh solvers by {worst:.2e}", {"method": method}))
                    stp = cls_(Hd, options=o)
                    d2 = {"a": 0.5}
                    stp.start(st_, 0.0)
                    s1 = stp.step(0.6, args=d2)
                    d2["a"] = -1.0
                    s2 = stp.step(1.3, args=d2)
                    ref1 = cls_(Hd, options=o).run(st_, [0, 0.6], args={"a": 0.5}).states[-1]
                    ref2 = cls_(Hd, options=o).run(ref1, [0.6, 1.3], args={"a": -1.0}).states[-1]
                    rep.evaluations += 1
                    if (s2 - ref2).norm() > 2e-6:
                        viol.append((f"schedule-dependence:args-dict-updated-in-place:{method}", f"{method} ({cls_.__name__}): stepping with one args dictionary updated in place between the steps differs from the evolution with those values by {(s2 - ref2).norm():.2e}", {"method": method}))
        except core.CaseTimeout:
            raise
        except Exception as e:
            if type(e).__name__ != "IntegratorException":
                viol.append((f"args-dict-raises:{method}", f"{type(e).__name__}: {e}"[:200], {"method": method}))
    # problems written in SI units (frequencies of GHz, times of nanoseconds) on unevenly spaced output times: the state
    # reported for a time is that of a fresh run to that time, for the constant-generator methods too
    ns = 1e-9
    Hsi = 2 * np.pi * 1e9 * (0.7 * qutip.sigmax() + 0.3 * qutip.sigmaz())
    csi = [np.sqrt(2e8) * qutip.sigmam()]
    sched = np.array([0.0, 0.1, 0.3, 0.35, 0.9, 1.0]) * ns
    for method in ("diag", "adams", "vern7"):
        for cls_, st_, kw_ in ((qutip.SESolver, qutip.basis(2, 0), {}), (qutip.MESolver, qutip.fock_dm(2, 0), {"c_ops": csi})):
            o = {"method": method, "progress_bar": ""}
            if method in ("adams", "vern7"):
                o.update(atol=1e-10, rtol=1e-9, nsteps=100000)
            if method == "krylov":
                o.update(krylov_dim=2)
            try:
                with core.time_limit(120):
                    sol = cls_(Hsi, options=o, **kw_)
                    one = sol.run(st_, sched).states
                    sol.start(st_, 0.0)
                    stepped = [sol.step(t) for t in sched[1:]]
                    worst, where = 0.0, None
                    for k in range(1, len(sched)):
                        fresh = cls_(Hsi, options=o, **kw_).run(st_, [0.0, sched[k]]).states[-1]
                        for nm_, g_ in (("one run over the schedule", one[k]), ("start / step", stepped[k - 1])):
                            e_ = (g_ - fresh).norm()
                            if e_ > worst:
                                worst, where = e_, (nm_, float(sched[k]))
            except core.CaseTimeout:
                raise
            except Exception as e:
                if type(e).__name__ != "IntegratorException":
                    viol.append((f"si-units-raises:{method}", f"{type(e).__name__}: {e}"[:200], {"method": method}))
                continue
            rep.evaluations += 1
            rep.count("relational-si-units")
            if worst > 1e-5:
                viol.append((f"schedule-dependence:si-units:{method}", f"{method} ({cls_.__name__}) on a GHz problem with output times {[round(x / ns, 3) for x in sched]} ns: {where[0]} reports at t = {where[1] / ns:.3g} ns a state {worst:.2e} away from a fresh run to that time", {"method": method}))
    # Monte-Carlo solvers: options given to an existing solver (dictionary assigned, items set) are the options its two layers
    # work with - the jump search and the ODE integrator underneath - and a run then equals that of a solver built with them
    for cls_name in ("MCSolver", "NonMarkovianMCSolver"):
        def mk(o):
            if cls_name == "MCSolver":
                return qutip.MCSolver(qutip.sigmax(), [0.7 * qutip.sigmam()], options=o)
            return qutip.NonMarkovianMCSolver(qutip.sigmax(), [(qutip.sigmam(), 0.5)], options=o)
        want = {"atol": 1e-12, "rtol": 1e-10, "norm_tol": 1e-7, "norm_t_tol": 1e-9}
        try:
            with warnings.catch_warnings():
                warnings.simplefilter("ignore")
                with core.time_limit(120):
                    base_o = {"progress_bar": "", "keep_runs_results": True, "store_states": True}
                    built = mk(dict(base_o, **want))
                    assigned = mk(dict(base_o))
                    assigned.run(qutip.basis(2, 0), [0, 0.2], ntraj=1, seeds=[3])
                    assigned.options = dict(want)
                    itemwise = mk(dict(base_o))
                    itemwise.options = {"norm_steps": 7}
                    for k_, v_ in want.items():
                        itemwise.options[k_] = v_
                    runs = {nm_: sl.run(qutip.basis(2, 0), [0, 1.0, 2.5], ntraj=2, seeds=[11, 12]) for nm_, sl in (("built", built), ("assigned", assigned), ("itemwise", itemwise))}
        except core.CaseTimeout:
            raise
        except Exception as e:
            viol.append((f"mc-options-raises:{cls_name}", f"{type(e).__name__}: {e}"[:200], {}))
            continue
        rep.count("relational-mc-options")
        for nm_, sl in (("assigned", assigned), ("itemwise", itemwise)):
            for k_, v_ in want.items():
                rep.evaluations += 1
                layers = {"solver.options": sl.options[k_], "jump search": sl._integrator.options[k_]}
                inner = getattr(sl._integrator, "_integrator", None)
                if inner is not None and k_ in getattr(inner, "options", {}):
                    layers["ODE integrator"] = inner.options[k_]
                bad = {a: b for a, b in layers.items() if b != v_}
                if bad:
                    viol.append((f"mc-options-kept:{k_}", f"{cls_name}: option {k_}={v_} given to an existing solver ({nm_}) is not what these layers work with: {bad}", {"solver": cls_name, "how": nm_, "key": k_}))
            for j in range(2):
                ct_a, ct_b = list(runs[nm_].col_times[j]), list(runs["built"].col_times[j])
                if len(ct_a) != len(ct_b) or (ct_a and max(abs(x - y) for x, y in zip(ct_a, ct_b)) > 1e-9):
                    viol.append((f"mc-options-run:{cls_name}", f"{cls_name}: a solver given the options afterwards ({nm_}) has collapse times {ct_a}, one built with them {ct_b} (seed {11 + j})", {"solver": cls_name, "how": nm_}))
                    break
    rep.notes["relational_methods"] = methods
    return viol


def options_correspondence(rep, rng, tier):
    import qutip
    methods = ["adams", "bdf", "lsoda", "dop853", "vern7", "vern9", "diag", "krylov"]
    avail = qutip.SESolver.avail_integrators()
    methods = [m for m in methods if m in avail]
    S = {k: v for k, v in qutip.SESolver.solver_options.items() if k != "method"}
    I = {m: dict(avail[m].integrator_options) for m in methods}

    def variants(v):
        if isinstance(v, bool):
            return [v, not v, None]
        if isinstance(v, (int, float)) and not isinstance(v, bool):
            return [v, v * 0.5 if isinstance(v, float) else v + 3, (v + 1) * 2, None]
        return [v, None]
    lines, reals = [], []
    for _ in range(60 if tier == "quick" else 600):
        m0 = str(rng.choice(methods))
        sol = qutip.SESolver(qutip.num(20), options={"method": m0})
        ops, outs = [], []
        cur = m0
        valid = True
        for _k in range(int(rng.integers(1, 8))):
            if not valid:
                break
            r = rng.random()
            if r < 0.55:
                newm = str(rng.choice(methods)) if rng.random() < 0.5 else None
                target = newm or cur
                d = {}
                pool = list(S) + list(I[target]) + (list(I[cur]) if rng.random() < 0.3 else []) + (["no_such_option"] if rng.random() < 0.05 else [])
                for key in rng.choice(pool, size=int(rng.integers(0, 5))):
                    key = str(key)
                    dv = S.get(key, I[target].get(key, I[cur].get(key, 1)))
                    cand = variants(dv)
                    # often the value the option has right now (the case in which "unchanged" items are dropped)
                    d[key] = sol.options[key] if (key in sol.options and rng.random() < 0.4) else cand[int(rng.integers(0, len(cand)))]
                if newm:
                    d["method"] = newm
                ops.append(["set", {k_: (None if v_ is None else repr(v_)) if k_ != "method" else v_ for k_, v_ in d.items()}])
                try:
                    sol.options = dict(d)
                except KeyError:
                    outs.append("KeyError")
                    continue
                except Exception:          # an integrator refusing a value (range checks): outside the model, history dropped
                    valid = False
                    continue
            elif r < 0.85:
                pool = list(S) + list(I[cur]) + (["no_such_option"] if rng.random() < 0.1 else []) + ([str(x) for x in I[str(rng.choice(methods))]] if rng.random() < 0.2 else [])
                key = str(rng.choice(pool))
                dv = S.get(key, I[cur].get(key, 1))
                cand = variants(dv)
                val = cand[int(rng.integers(0, len(cand)))]
                ops.append(["item", key, None if val is None else repr(val)])
                try:
                    sol.options[key] = val
                except KeyError:
                    outs.append("KeyError")
                    continue
                except Exception:
                    valid = False
                    continue
            else:
                newm = str(rng.choice(methods))
                ops.append(["method", newm])
                try:
                    sol.options["method"] = newm
                except Exception:
                    valid = False
                    continue
            cur = sol.options["method"]
            outs.append({"method": cur, "vals": sorted([k_, repr(v_)] for k_, v_ in sol.options.items() if k_ != "method")})
        if not valid:
            rep.count("options-history-dropped")
            continue
        lines.append("C11.options " + json.dumps({"S": {k_: repr(v_) for k_, v_ in S.items()}, "I": {m: {k_: repr(v_) for k_, v_ in I[m].items()} for m in methods},
                                                   "method": m0, "ops": ops}))
        reals.append((outs, ops, m0))
        rep.count("options-history")
    model = core.run_driver(lines)
    nd, first = 0, None

    def _num(sv):
        # 0 and 0.0 are one value: an option set to a value equal to the one it holds may keep either object
        try:
            import ast
            x_ = ast.literal_eval(sv)
            if isinstance(x_, (int, float)) and not isinstance(x_, bool):
                return repr(float(x_))
        except Exception:
            pass
        return sv

    def _canon(entry):
        return entry if entry == "KeyError" else {"method": entry["method"], "vals": sorted([k_, _num(v_)] for k_, v_ in entry["vals"])}
    for (outs, ops, m0), m in zip(reals, model):
        rep.evaluations += 1
        outs = [_canon(x) for x in outs]
        got = []
        for x in (m if isinstance(m, list) else []):
            got.append(_canon(x))
        if got != outs:
            nd += 1
            if first is None:
                k = next((i for i, (a, b) in enumerate(zip(got, outs)) if a != b), None)
                first = {"method0": m0, "ops": ops, "first_difference_at": k, "model": got[k] if k is not None and k < len(got) else m, "impl": outs[k] if k is not None else outs}
    return nd, first


def run(tier, seed, replay):
    rep = core.Report(PID, tier, seed)
    rep.rule = ("propagator: random query sequences (t, t_start) over integer times in [-T, T], memo sizes 0..7, "
                "constant and time-dependent flows; non-trivial = at least 3 queries with a non-monotone or negative time; "
                "relational: 5 reuse patterns x integration methods on random 3-level systems")
    rep.assumptions = [
        "the Propagator is driven with a fake Solver with an exact integer flow (tolerance-based time matching is not exercised)",
        "real integrators are only compared relationally (same problem, different schedules) within 2e-6 / 1e-5",
    ]
    core.build_repo()
    proved = core.prove(rep, ["Qv.Model.C11", "Qv.Proofs.C11", "Qv.Props.C11"], "Qv.Props.C11")
    if tier == "thorough":
        core.leanchecker(rep, ["Qv.Props.C11"])
    rng = np.random.default_rng(seed)
    if replay:
        cases = [json.load(open(replay))["replay"]["case"]]
    else:
        cases = []
        d = os.path.join(core.VERIF, "corpus", PID)
        if os.path.isdir(d):
            for f in sorted(os.listdir(d)):
                cases.append(json.load(open(os.path.join(d, f)))["case"])
        cases += [gen_prop(rng, tier) for _ in range(600 if tier == "quick" else 6000)]
    model = core.run_driver(["C11.prop " + json.dumps(c) for c in cases])
    ndis, first = 0, None
    for c, m in zip(cases, model):
        try:
            with core.time_limit(30):
                real = run_real_prop(c)
        except Exception as e:
            rep.violation(core.Violation("C11:propagator-crash", repr(e)[:300], {"case": c}))
            continue
        qs = c["queries"]
        nontriv = len(qs) >= 3 and (any(q[0] < 0 or q[1] != 0 or len(q) > 2 for q in qs) or qs != sorted(qs))
        rep.case(c, nontriv)
        rep.count("cte" if c["cte"] else "td")
        rep.count("memoize=%d" % c["memoize"])
        for sig, what in oracle_prop(c, real):
            def bad(cc, sig=sig):
                return any(s == sig for s, _ in oracle_prop(cc, run_real_prop(cc)))
            small = shrink_prop(c, bad)
            rep.violation(core.Violation("C11:" + sig, what, {"case": small, "impl": run_real_prop(small)}))
        ok = "answers" in m and len(m["answers"]) == len(real["answers"]) and all(
            max(abs(float(a) - b) for a, b in zip(ma, ra)) <= 1e-6 * (1 + max(abs(x) for x in ra))
            for ma, ra in zip(m["answers"], real["answers"])) and m["times"] == real["times"] and m["t_last"] == real["t_last"]
        if not ok:
            ndis += 1
            if first is None:
                first = {"case": c, "model": m, "impl": real}
    rep.notes["correspondence_disagreements"] = ndis
    if ndis:
        rep.broken.append({"kind": "correspondence", "which": "C11.prop", "count": ndis, "first": first})
    # ---- the options object of a solver: histories of `solver.options = {...}`, `solver.options[key] = value` and method
    #      changes on a real SESolver against the model (key sets and defaults are read from the classes of /repo)
    if not replay:
        nd2, first2 = options_correspondence(rep, rng, tier)
        rep.notes["options_correspondence_disagreements"] = nd2
        if nd2:
            ndis += nd2
            rep.broken.append({"kind": "correspondence", "which": "C11.options", "count": nd2, "first": first2})
    if not replay:
        for sig, what, detail in relational(rep, rng, tier):
            rep.violation(core.Violation("C11:" + sig, what, detail))
    if (ndis or not proved) and not rep.violations:
        rep.violation(core.Violation("C11:unverified", "model/proof no longer matches the code and no failing input was found",
                                     {"broken": rep.broken}, failing_input_found=False))
    return rep.finish()


if __name__ == "__main__":
    core.main(run, PID)
