"""C02 — Qobj arithmetic is matrix arithmetic with consistent dimension bookkeeping.

1. Correspondence of the dimension algebra: random nested-list specifications (flat, nested
   superoperator, 1-dimensional factors, rectangular, extra list layers, malformed) are parsed by the
   real `Dimensions` and by the Lean model Qv.Model.C02: as_list, type, shape, superrep, issuper,
   issquare or the error kind; equality / hash of pairs; `@` composition.
2. Oracle on expression trees (independent of the model): random trees over
   + - * / @ ** neg dag trans conj inv tr proj overlap matrix_element __call__ on objects of every
   type and storage format; the result must be the NumPy expression on the dense matrices, carry
   the composed labels / type / shape, and ill-composed operands must raise.
"""
import copy
import json
import pickle
import os
import sys

import numpy as np

sys.path.insert(0, os.path.dirname(os.path.abspath(__file__)))
import core

PID = "C02"


# ---------------------------------------------------------------------------
# 1. dimension specifications
def gen_space_spec(rng, depth=0, allow_super=True):
    r = rng.random()
    if r < 0.55 or depth > 1:
        k = int(rng.integers(1, 4))
        return [int(rng.choice([1, 1, 2, 2, 3, 4])) for _ in range(k)]
    if r < 0.70:
        return [gen_space_spec(rng, depth + 1, False)]                  # extra list layer
    if r < 0.92 and allow_super:
        k = int(rng.integers(1, 3))
        out = []
        for _ in range(k):
            a = gen_space_spec(rng, 2, False)
            b = a if rng.random() < 0.7 else gen_space_spec(rng, 2, False)
            out += [a, b]
        return out
    # malformed
    return [[], [2, [3]], [[2], 3], [0], [-2], [[2], [2], [2]], [2, 0]][int(rng.integers(0, 7))]


def gen_dims_spec(rng):
    a = gen_space_spec(rng)
    r = rng.random()
    if r < 0.35:
        b = a
    elif r < 0.55:
        b = [1] * int(rng.integers(1, 3))
    elif r < 0.65:
        b = [[1]]
    else:
        b = gen_space_spec(rng)
    return [a, b] if rng.random() < 0.8 else [b, a]


def real_dims(spec, rep=None):
    from qutip.core.dimensions import Dimensions
    try:
        d = Dimensions(spec, rep=rep)
    except ValueError:
        return {"error": "ValueError"}
    except TypeError:
        return {"error": "TypeError"}
    except NotImplementedError:
        return {"error": "NotImplementedError"}
    return {"as_list": d.as_list(), "type": d.type, "shape": [int(d.shape[0]), int(d.shape[1])],
            "issuper": bool(d.issuper), "superrep": d.superrep, "issquare": bool(d.issquare)}, d


# ---------------------------------------------------------------------------
# 2. expression trees on Qobj
def ident(n, m, rng):
    a = rng.integers(-3, 4, size=(n, m)) + 1j * rng.integers(-3, 4, size=(n, m))
    return a.astype(complex)


def gen_leaf(rng):
    import qutip
    kind = str(rng.choice(["oper", "oper", "herm", "herm", "ket", "bra", "super", "operket", "rect", "scalar"]))
    dimsets = [[2], [3], [2, 2], [2, 3], [3, 2], [1, 2], [2, 1], [4], [6]]
    d = dimsets[int(rng.integers(0, len(dimsets)))]
    n = int(np.prod(d))
    fmt = str(rng.choice(["csr", "dense", "dia"]))
    if kind == "oper":
        q = qutip.Qobj(ident(n, n, rng), dims=[d, d])
    elif kind == "herm":
        m = ident(n, n, rng)
        q = qutip.Qobj(m + m.conj().T, dims=[d, d])
    elif kind == "ket":
        q = qutip.Qobj(ident(n, 1, rng), dims=[d, [1] * len(d)])
    elif kind == "bra":
        q = qutip.Qobj(ident(1, n, rng), dims=[[1] * len(d), d])
    elif kind == "rect":
        d2 = dimsets[int(rng.integers(0, len(dimsets)))]
        q = qutip.Qobj(ident(n, int(np.prod(d2)), rng), dims=[d, d2])
    elif kind == "super":
        d = [2] if rng.random() < 0.7 else [3]
        n = d[0]
        q = qutip.Qobj(ident(n * n, n * n, rng), dims=[[d, d], [d, d]], superrep=str(rng.choice(["super", "choi"])))
    elif kind == "operket":
        d = [2] if rng.random() < 0.7 else [3]
        n = d[0]
        q = qutip.Qobj(ident(n * n, 1, rng), dims=[[d, d], [1]])
    else:
        q = qutip.Qobj(ident(1, 1, rng))
    return q.to(fmt)


RELABEL = {2: [[2], [1, 2], [2, 1]], 3: [[3], [1, 3]], 4: [[4], [2, 2]], 6: [[6], [2, 3], [3, 2]]}


def relabelled(q, rng):
    """the same matrix with the row or the column space (or both) written as another factorisation of the same size"""
    import qutip
    if q.type not in ("oper", "ket", "bra") or isinstance(q.dims[0][0], list):
        if q.issuper and q.dims[0][0] == [2] and False:
            pass
        return None
    d0, d1 = q.dims
    n0, n1 = int(np.prod(d0)), int(np.prod(d1))
    which = int(rng.integers(0, 3))
    nd0 = RELABEL.get(n0, [d0])[int(rng.integers(0, len(RELABEL.get(n0, [d0]))))] if which in (0, 2) and n0 > 1 else d0
    nd1 = RELABEL.get(n1, [d1])[int(rng.integers(0, len(RELABEL.get(n1, [d1]))))] if which in (1, 2) and n1 > 1 else d1
    if len(nd0) != len(d0) and n1 == 1:
        nd1 = [1] * len(nd0)
    if len(nd1) != len(d1) and n0 == 1:
        nd0 = [1] * len(nd1)
    try:
        return qutip.Qobj(q.full(), dims=[nd0, nd1]).to(type(q.data))
    except Exception:      # noqa
        return None


class Node:
    def __init__(self, q, expr):
        self.q, self.expr = q, expr


BIN = ["add", "sub", "matmul", "mul", "overlap", "call", "matel"]
UN = ["neg", "dag", "trans", "conj", "smul", "sdiv", "pow", "inv", "tr", "proj", "sadd", "copy", "to"]


def apply_real(op, a, b, rng):
    """returns (result, numpy expected array or scalar, expected dims-or-None) or raises"""
    import qutip
    A = a.full()
    B = b.full() if b is not None else None
    if op == "add":
        return a + b, A + B, a.dims
    if op == "sub":
        return a - b, A - B, a.dims
    if op in ("matmul", "mul"):
        r = a @ b if op == "matmul" else a * b
        return r, A @ B, [a.dims[0], b.dims[1]]
    if op == "overlap":
        # pure with pure: the amplitude <a|b> of the underlying vectors (conjugated for ket.overlap(bra), as documented by the
        # library's own test); with an operator: the Hilbert-Schmidt product tr(X+ Y), states entering as projectors
        va = A if a.isket else (A.conj().T if a.isbra else None)
        vb = B if b.isket else (B.conj().T if b.isbra else None)
        if va is not None and vb is not None:
            w = (va.conj().T @ vb)[0, 0]
            return a.overlap(b), (np.conj(w) if (a.isket and b.isbra) else w), None
        X = A if va is None else va @ va.conj().T
        Y = B if vb is None else vb @ vb.conj().T
        return a.overlap(b), np.trace(X.conj().T @ Y), None
    if op == "call":
        # an operator applied to a ket, a superoperator applied to an operator (through column stacking) or to a ket
        # (its projector)
        if a.issuper:
            X = B if not b.isket else B @ B.conj().T
            n_out = int(np.prod(a.dims[0][0]))
            Y = (A @ X.reshape(-1, 1, order="F")).reshape(n_out, -1, order="F")
            return a(b), Y, a.dims[0]
        return a(b), A @ B, [a.dims[0], b.dims[1]]
    if op == "matel":
        return None, None, None
    if op == "neg":
        return -a, -A, a.dims
    if op == "dag":
        return a.dag(), A.conj().T, [a.dims[1], a.dims[0]]
    if op == "trans":
        return a.trans(), A.T, [a.dims[1], a.dims[0]]
    if op == "conj":
        return a.conj(), A.conj(), a.dims
    if op == "smul":
        z = complex(int(rng.integers(-2, 3)), int(rng.integers(-2, 3)))
        return (a * z if rng.random() < 0.5 else z * a), z * A, a.dims
    if op == "sdiv":
        z = [2.0, 2j, -2j, 0.5 + 0.5j, -4.0, 0.5j][int(rng.integers(0, 6))]
        return a / z, A / z, a.dims
    if op == "pow":
        k = int(rng.integers(0, 4))
        return a ** k, np.linalg.matrix_power(A, k), a.dims
    if op == "inv":
        return a.inv(), np.linalg.inv(A), [a.dims[1], a.dims[0]]
    if op == "tr":
        return a.tr(), np.trace(A), None
    if op == "proj":
        return a.proj(), (A @ A.conj().T if a.isket else A.conj().T @ A), None
    if op == "sadd":
        z = complex(int(rng.integers(-2, 3)), int(rng.integers(-2, 3)))
        return (a + z if rng.random() < 0.5 else z + a), A + z * np.eye(A.shape[0], A.shape[1]), a.dims
    if op == "copy":
        return a.copy(), A, a.dims
    if op == "to":
        return a.to(str(rng.choice(["csr", "dense", "dia"]))), A, a.dims
    raise KeyError(op)


def composable(op, a, b):
    """independent decision: do the labels compose for this operation?"""
    if op in ("add", "sub"):
        return a.dims == b.dims and (a.superrep == b.superrep or not a.issuper)
    if op in ("matmul", "mul"):
        return a.dims[1] == b.dims[0]
    if op == "call":
        if a.issuper:
            if a.superrep not in (None, "super"):
                return None
            return (b.isoper and a.dims[1] == b.dims) or (b.isket and a.dims[1] == [b.dims[0], b.dims[0]])
        if a.isoper and b.isket:
            return a.dims[1] == b.dims[0]
        return None
    if op == "overlap":
        if a.type not in ("ket", "bra", "oper") or b.type not in ("ket", "bra", "oper"):
            return False
        sa = a.dims[0] if a.isket else (a.dims[1] if a.isbra else (a.dims[0] if a.dims[0] == a.dims[1] else None))
        sb = b.dims[0] if b.isket else (b.dims[1] if b.isbra else (b.dims[0] if b.dims[0] == b.dims[1] else None))
        return True if (sa is not None and sa == sb) else None      # value checked only where the labels agree
    if op == "pow":
        return a.dims[0] == a.dims[1] and a.shape[0] == a.shape[1] and (a.isoper or a.issuper)
    if op == "inv":
        return a.shape[0] == a.shape[1]       # an invertible map between differently labelled spaces is fine
    if op == "tr":
        return True
    if op == "proj":
        return a.isket or a.isbra
    if op == "sadd":
        return a.dims[0] == a.dims[1] or None       # scalar promotion only next to a square object
    return True


def run_tree(rng, tier, rep):
    """build a random tree bottom-up; returns list of (signature, description, replay)"""
    import qutip
    viol = []
    pool = [gen_leaf(rng) for _ in range(int(rng.integers(2, 5)))]
    steps = int(rng.integers(2, 7 if tier == "quick" else 12))
    log = []
    for _ in range(steps):
        if rng.random() < 0.55:
            op = str(rng.choice(["add", "sub", "matmul", "mul", "overlap", "call"]))
            a, b = pool[int(rng.integers(0, len(pool)))], pool[int(rng.integers(0, len(pool)))]
            if op == "call":
                # maps applied to states of matching size: the right labels, or the same size under other labels
                sups = [q for q in pool if q.issuper and q.superrep in (None, "super")] or [qutip.to_super(qutip.Qobj(ident(n_, n_, rng), dims=[d_, d_])) for d_, n_ in [([2, 2], 4)]]
                a = sups[int(rng.integers(0, len(sups)))]
                din = a.dims[1][0]
                nin = int(np.prod(din))
                lab = RELABEL.get(nin, [din])[int(rng.integers(0, len(RELABEL.get(nin, [din]))))] if rng.random() < 0.5 else din
                b = qutip.Qobj(ident(nin, nin, rng), dims=[lab, lab]) if rng.random() < 0.7 else qutip.Qobj(ident(nin, 1, rng), dims=[lab, [1] * len(lab)])
            elif rng.random() < 0.25:
                # an object that went through pickling / deep copying is the same object as far as labels go
                b = pickle.loads(pickle.dumps(a)) if rng.random() < 0.5 else copy.deepcopy(a)
                if op in ("add", "sub") and not (a == b) and np.all(np.isfinite(a.full())):
                    viol.append(("eq-after-pickle", f"{a.type}{a.dims}: an object and its pickled / deep-copied self do not compare equal", log[-3:]))
            if rng.random() < 0.35:
                # near miss: the same shape under other labels, in either order
                rb = relabelled(a, rng)
                if rb is not None:
                    a, b = (a, rb) if rng.random() < 0.5 else (rb, a)
                    if op in ("add", "sub"):
                        # equality and inequality are each other's negation, on the objects and on their labels
                        eq, ne = (a == b), (a != b)
                        deq, dne = (a._dims == b._dims), (a._dims != b._dims)
                        if bool(eq) == bool(ne) or bool(deq) == bool(dne):
                            viol.append(("eq-ne", f"{a.dims} vs {b.dims}: == gives {eq} and != gives {ne} (labels: == {deq}, != {dne})", log[-3:]))
                        if bool(deq) != (a.dims == b.dims):
                            viol.append(("dims-eq", f"Dimensions equality of {a.dims} and {b.dims} is {deq}", log[-3:]))
                        if bool(eq) and a.dims != b.dims:
                            viol.append(("eq-dims", f"objects labelled {a.dims} and {b.dims} compare equal", log[-3:]))
        else:
            op = str(rng.choice(UN))
            a, b = pool[int(rng.integers(0, len(pool)))], None
        if rng.random() < 0.5:
            a.isherm          # attributes of intermediate objects may have been inspected
        if rng.random() < 0.15:
            a.isunitary
        desc = f"{op}({a.type}{a.dims}:{type(a.data).__name__}" + (f", {b.type}{b.dims}:{type(b.data).__name__})" if b is not None else ")")
        log.append(desc)
        rep.count("op=" + op)
        comp = composable(op, a, b)
        if op == "inv":
            A = a.full()
            # the inverse of an ill-conditioned matrix is not determined to the comparison's tolerance (the determinant says
            # nothing about that): this property is about labels, such operands are left out
            if A.shape[0] != A.shape[1] or abs(np.linalg.det(A)) < 1e-6 or np.linalg.cond(A) > 1e4:
                continue
        try:
            with core.time_limit(30):
                res, want, wdims = apply_real(op, a, b, rng)
        except core.CaseTimeout:
            raise
        except Exception as e:
            if comp is True and op not in ("inv",):
                # the labels compose: refusing is only acceptable for documented restrictions
                if not isinstance(e, (TypeError, ValueError, NotImplementedError)):
                    viol.append((f"crash:{op}", f"{desc}: {type(e).__name__}: {e}"[:300], log[-3:]))
            continue
        if comp is False:
            if isinstance(res, qutip.Qobj) or np.isscalar(res):
                # shapes may agree although labels do not: must have been rejected
                viol.append((f"not-rejected:{op}", f"{desc}: operands whose labels do not compose were accepted", log[-3:]))
            continue
        if res is None or want is None:
            continue
        if np.isscalar(res) or isinstance(res, (complex, float)):
            if abs(res - want) > 1e-9 * (1 + abs(want)):
                viol.append((f"value:{op}", f"{desc}: scalar {res} expected {want}", log[-3:]))
            continue
        if not isinstance(res, qutip.Qobj):
            continue
        got = res.full()
        scale = 1 + np.abs(want).max() if np.size(want) else 1
        if got.shape != np.shape(want) or np.abs(got - want).max() > 1e-8 * scale:
            viol.append((f"value:{op}", f"{desc}: matrix differs from the NumPy expression on the dense operands", log[-3:]))
            continue
        if wdims is not None:
            def norm(d):
                # modulo the documented collapse of all-1 spaces
                flat = lambda x: [y for z in x for y in (flat(z) if isinstance(z, list) else [z])]
                return [([1] if all(v == 1 for v in flat(s)) else s) for s in d]
            if norm(res.dims) != norm(wdims):
                viol.append((f"dims:{op}", f"{desc}: result labelled {res.dims}, composition of the operands' labels is {wdims}", log[-3:]))
        if res.shape != got.shape:
            viol.append((f"shape:{op}", f"{desc}: shape attribute {res.shape} vs data {got.shape}", log[-3:]))
        # the representation tag of a superoperator is part of its labels: operations on one object keep it, and the result
        # still composes with the operand where the mathematics says it does
        if a.issuper and op in ("neg", "dag", "trans", "conj", "smul", "sdiv", "inv", "copy", "to", "add", "sub") and (b is None or op not in ("add", "sub") or b.superrep == a.superrep):
            if res.issuper and res.superrep != a.superrep:
                viol.append((f"superrep:{op}", f"{desc}: the operand is in the '{a.superrep}' representation, the result is labelled '{res.superrep}'", log[-3:]))
            elif op == "inv" and res.issuper:
                try:
                    prod_ = (a @ res).full()
                    if np.abs(prod_ - np.eye(prod_.shape[0])).max() > 1e-6 * (1 + np.abs(res.full()).max() * np.abs(a.full()).max()):
                        viol.append((f"value:inv-product", f"{desc}: a @ a.inv() is not the identity", log[-3:]))
                except Exception as e:
                    viol.append((f"superrep:inv-product", f"{desc}: a @ a.inv() raises {type(e).__name__}: {e}"[:240], log[-3:]))
        # quantities derived from the result must be those of its matrix (trace, diagonal, matrix elements)
        if got.shape[0] == got.shape[1]:
            tr = res.tr()
            if abs(tr - np.trace(got)) > 1e-8 * (1 + abs(np.trace(got))):
                viol.append((f"trace-after:{op}", f"{desc}: tr() of the result is {tr}, trace of its matrix is {np.trace(got)}", log[-3:]))
            dg = res.diag()
            if np.abs(dg - np.diag(got)).max() > 1e-8 * scale:
                viol.append((f"diag-after:{op}", f"{desc}: diag() of the result differs from the diagonal of its matrix", log[-3:]))
        # type consistent with labels and shape
        t = res.type
        r, c = got.shape
        ok = {"scalar": r == 1 and c == 1, "ket": c == 1 and r > 1, "bra": r == 1 and c > 1,
              "oper": True, "super": True, "operator-ket": c == 1, "operator-bra": r == 1}.get(t, False)
        if not ok:
            viol.append((f"type:{op}", f"{desc}: result type {t} inconsistent with shape {got.shape}", log[-3:]))
        nested = isinstance(res.dims[0][0], list) or isinstance(res.dims[1][0], list)
        if (t in ("super", "operator-ket", "operator-bra")) != nested:
            viol.append((f"type:{op}", f"{desc}: type {t} but dims {res.dims}", log[-3:]))
        if abs(np.size(got)) <= 64 * 64:
            pool.append(res)
    return viol


def groupings(rep, rng, tier):
    """however a tensor space is put together (all factors at once, left- or right-nested products, halves, with
    one-dimensional factors), the labels are one and the same object for ==, != and hashing"""
    import qutip
    from qutip.core.dimensions import Space, Dimensions
    viol = []
    for _ in range(40 if tier == "quick" else 300):
        k = int(rng.integers(3, 6))
        ds = [int(x) for x in rng.choice([1, 2, 3, 4], size=k)]
        # at most one one-dimensional factor: a product of several of them collapses to the scalar field (documented), and
        # nested groupings would then drop factors
        seen1 = False
        for i_, d in enumerate(ds):
            if d == 1:
                if seen1:
                    ds[i_] = 2
                seen1 = True
        kind = str(rng.choice(["ket", "oper", "dm-super"]))
        if kind == "dm-super":
            ds = [max(d, 2) for d in ds[:3]]        # no superoperators over a one-dimensional space (they collapse to scalars)
            k = len(ds)
        facs = []
        for d in ds:
            if kind == "ket":
                facs.append(qutip.basis(d, 0))
            elif kind == "oper":
                facs.append(qutip.qeye(d) if d > 1 else qutip.Qobj([[1.0]]))
            else:
                facs.append(qutip.to_super(qutip.qeye(d)) if d > 1 else qutip.to_super(qutip.Qobj([[1.0]])))
        cut = int(rng.integers(1, k))
        try:
            builds = {"all at once": qutip.tensor(*facs), "left-nested": None, "right-nested": None,
                      "two halves": qutip.tensor(qutip.tensor(*facs[:cut]), qutip.tensor(*facs[cut:])) if 0 < cut < k else None,
                      "as a list": qutip.tensor(list(facs))}
            acc = facs[0]
            for f_ in facs[1:]:
                acc = qutip.tensor(acc, f_)
            builds["left-nested"] = acc
            acc = facs[-1]
            for f_ in reversed(facs[:-1]):
                acc = qutip.tensor(f_, acc)
            builds["right-nested"] = acc
            if kind != "dm-super":
                sp = [Space([d]) for d in ds]
                builds_sp = {"Space(list)": Space(ds), "Space(Space(..), Space(..))": Space(Space(ds[:cut]), Space(ds[cut:])), "Space of spaces": Space(*sp)}
            else:
                builds_sp = {}
        except Exception as e:      # noqa
            viol.append(("grouping-raises", f"building a tensor space on {ds} ({kind}) raises {type(e).__name__}: {e}"[:200], {"dims": ds, "kind": kind}))
            continue
        rep.evaluations += 1
        rep.count("grouping=" + kind)
        for family, items in (("objects", {n: q._dims for n, q in builds.items() if q is not None}), ("spaces", builds_sp)):
            names = list(items)
            if not names:
                continue
            ref = items[names[0]]
            for n in names[1:]:
                x = items[n]
                if not (ref == x) or (ref != x):
                    viol.append(("grouping-eq", f"labels of a tensor space on {ds} ({kind}) built {names[0]} and {n} do not compare equal", {"dims": ds, "kind": kind, "build": n}))
                elif hash(ref) != hash(x):
                    viol.append(("grouping-hash", f"labels of a tensor space on {ds} ({kind}) built {names[0]} and {n} are equal but hash differently", {"dims": ds, "kind": kind, "build": n}))
                elif len({ref, x}) != 1 or {ref: 1}.get(x) != 1:
                    viol.append(("grouping-set", f"labels of a tensor space on {ds} ({kind}) built {names[0]} and {n} are distinct set members / dictionary keys", {"dims": ds, "kind": kind, "build": n}))
        dl = {n: q.dims for n, q in builds.items() if q is not None}
        if len({json.dumps(d) for d in dl.values()}) != 1:
            viol.append(("grouping-dims", f"tensor products of the same factors in different groupings are labelled differently: {dl}", {"dims": ds, "kind": kind}))
    return viol


def matrix_elements(rep, rng, tier):
    """<bra| op |ket> for square and rectangular operators, both states given as a ket or as a bra, in every
    combination of storage formats: the NumPy expression on the dense matrices"""
    import qutip
    dimsets = [[2], [3], [2, 2], [2, 3], [1, 2], [4], [5]]
    out = []
    for _ in range(60 if tier == "quick" else 600):
        d_out = dimsets[int(rng.integers(0, len(dimsets)))]
        d_in = d_out if rng.random() < 0.3 else dimsets[int(rng.integers(0, len(dimsets)))]
        n, m = int(np.prod(d_out)), int(np.prod(d_in))
        A = ident(n, m, rng) * (rng.random((n, m)) < float(rng.choice([0.4, 0.8, 1.0])))
        l, r = ident(n, 1, rng), ident(m, 1, rng)
        want = (l.conj().T @ A @ r)[0, 0]
        op = qutip.Qobj(A, dims=[d_out, d_in])
        lq = qutip.Qobj(l, dims=[d_out, [1] * len(d_out)])
        rq = qutip.Qobj(r, dims=[d_in, [1] * len(d_in)])
        for fo in ("csr", "dense", "dia"):
            for fl in ("csr", "dense", "dia"):
                for fr_ in ("csr", "dense", "dia"):
                    for lb in (False, True):
                        for rb in (False, True):
                            rep.evaluations += 1
                            L = (lq.dag() if lb else lq).to(fl)
                            R = (rq.dag() if rb else rq).to(fr_)
                            try:
                                got = op.to(fo).matrix_element(L, R)
                            except Exception as e:
                                out.append((f"matrix-element-raises:{fo}", f"matrix_element raises {type(e).__name__}: {e}"[:200], {"A": str(A.tolist())}))
                                continue
                            if abs(got - want) > 1e-9 * max(1.0, abs(want)):
                                out.append((f"matrix-element:{fl}+{fo}+{fr_}", f"<l|A|r> with A {n}x{m} ({fo}), l as a {'bra' if lb else 'ket'} ({fl}), r as a {'bra' if rb else 'ket'} ({fr_}) gives {got}, NumPy gives {want}",
                                            {"A": str(A.tolist()), "l": str(l.ravel().tolist()), "r": str(r.ravel().tolist())}))
        rep.count("matrix-element-" + ("square" if n == m else "wide" if n < m else "tall"))
    return out


def overlaps(rep, rng, tier):
    """overlap between kets, bras and operators (Hermitian or not) in every storage: the Hilbert-Schmidt product
    tr(X+ Y) with states entering as projectors; the amplitude <a|b> between two pure states"""
    import qutip
    out = []
    for _ in range(25 if tier == "quick" else 250):
        d = [[2], [3], [2, 2], [1, 3], [4]][int(rng.integers(0, 5))]
        n = int(np.prod(d))
        k1, k2 = ident(n, 1, rng), ident(n, 1, rng)
        Mh = ident(n, n, rng)
        things = {"ket": (qutip.Qobj(k1, dims=[d, [1] * len(d)]), k1 @ k1.conj().T, k1), "ket2": (qutip.Qobj(k2, dims=[d, [1] * len(d)]), k2 @ k2.conj().T, k2),
                  "bra": (qutip.Qobj(k2.conj().T, dims=[[1] * len(d), d]), k2 @ k2.conj().T, k2),
                  "herm": (qutip.Qobj(Mh + Mh.conj().T, dims=[d, d]), Mh + Mh.conj().T, None), "oper": (qutip.Qobj(ident(n, n, rng), dims=[d, d]), None, None)}
        things["oper"] = (things["oper"][0], things["oper"][0].full(), None)
        for na, (qa, Xa, va) in things.items():
            for nb, (qb, Xb, vb) in things.items():
                fa, fb = str(rng.choice(["csr", "dense", "dia"])), str(rng.choice(["csr", "dense", "dia"]))
                rep.evaluations += 1
                try:
                    got = complex(qa.to(fa).overlap(qb.to(fb)))
                except Exception as e:
                    out.append((f"overlap-raises:{na}-{nb}", f"overlap of a {na} ({fa}) with a {nb} ({fb}) raises {type(e).__name__}: {e}"[:200], {}))
                    continue
                if va is not None and vb is not None:
                    w = (va.conj().T @ vb)[0, 0]
                    want = np.conj(w) if (qa.isket and qb.isbra) else w
                else:
                    want = np.trace(Xa.conj().T @ Xb)
                if abs(got - want) > 1e-9 * max(1.0, abs(want)):
                    out.append((f"overlap:{na}-{nb}", f"{na}.overlap({nb}) ({fa}, {fb}, dims {d}) gives {got}, the Hilbert-Schmidt product of the two objects is {want}", {"dims": d}))
        rep.count("overlap-block")
    return out


ME_LINES = []


def run(tier, seed, replay):
    rep = core.Report(PID, tier, seed)
    rep.rule = ("dimension specs: random nested lists (flat, extra layer, superoperator pairs, 1-factors, malformed), pairs for "
                "eq/hash/@; expression trees: 2-11 operations over operators, kets, bras, rectangular, super, operator-kets, "
                "scalars in csr/dense/dia with Gaussian-integer entries; non-trivial = spec with >= 2 factors or nested, tree "
                "with >= 2 accepted operations")
    rep.assumptions = ["labels are compared modulo the documented auto_tidyup_dims collapse of all-1 spaces",
                       "inverse only on well-conditioned operands (|det| > 1e-6)"]
    core.build_repo()
    proved = core.prove(rep, ["Qv.Model.C02", "Qv.Proofs.C02", "Qv.Props.C02"], "Qv.Props.C02")
    if tier == "thorough":
        core.leanchecker(rep, ["Qv.Props.C02"])
    import qutip
    from qutip.core.dimensions import Dimensions
    rng = np.random.default_rng(seed)
    nspec = 400 if tier == "quick" else 4000
    specs = [(gen_dims_spec(rng), (None if rng.random() < 0.7 else str(rng.choice(["super", "choi", "chi"])))) for _ in range(nspec)]
    lines = ["C02.dims " + json.dumps({"tidy": True, "spec": s, **({"rep": r} if r else {})}) for s, r in specs]
    pairs = [(gen_dims_spec(rng), gen_dims_spec(rng)) for _ in range(nspec // 2)]
    # make many pairs composable / equal on purpose
    for i in range(0, len(pairs), 3):
        a, b = pairs[i]
        pairs[i] = (a, [a[1], b[1]] if rng.random() < 0.5 else a)
    # histories: a legal product first, then the same left operand with a right operand whose input labels are the
    # same but whose output labels are a *relabelling* of the same total size (must be rejected whatever came before)
    relabel = {6: [[6], [2, 3], [3, 2]], 4: [[4], [2, 2]], 8: [[8], [2, 4], [4, 2], [2, 2, 2]], 12: [[12], [3, 4], [2, 6], [2, 2, 3]]}
    extra = []
    for _ in range(nspec // 8):
        n = int(rng.choice(list(relabel)))
        labs = relabel[n]
        X = labs[int(rng.integers(0, len(labs)))]
        Y = labs[int(rng.integers(0, len(labs)))]
        Z = gen_space_spec(rng, 2, False)
        Y2 = labs[int(rng.integers(0, len(labs)))]
        extra += [([X, Y], [Y, Z]), ([X, Y], [Y2, Z]), ([X, Y], [Y, Z])]
    pairs += extra
    lines += ["C02.matmul " + json.dumps({"tidy": True, "a": a, "b": b}) for a, b in pairs]
    # the same specifications with the tidy-up of all-1 spaces switched off (settings.core["auto_tidyup_dims"] = False)
    nbase = len(lines)
    lines += ["C02.dims " + json.dumps({"tidy": False, "spec": s, **({"rep": r} if r else {})}) for s, r in specs]
    seen_g = set()
    for sig, what, data in matrix_elements(rep, np.random.default_rng([seed, 77]), tier) + overlaps(rep, np.random.default_rng([seed, 78]), tier) + groupings(rep, rng, tier):
        if sig not in seen_g:
            seen_g.add(sig)
            rep.violation(core.Violation("C02:" + sig, what, data))
    # the representation of a superoperator-type object is part of its labels: products, applications and sums of operands
    # whose nested dims agree but whose representations differ are refused, like any other pair of labels that do not
    # compose; with equal representations they are computed like the matrices and keep their tag; `!=` of the spaces is
    # the negation of `==`
    import itertools
    for sub in ([2], [3], [2, 2]):
        n_ = int(np.prod(sub))
        for fmt in ("dense", "csr"):
            sup = {r_: qutip.Qobj(rng.integers(-3, 4, (n_ * n_, n_ * n_)) + 1j * rng.integers(-3, 4, (n_ * n_, n_ * n_)), dims=[[sub, sub], [sub, sub]], superrep=r_).to(fmt) for r_ in ("super", "choi", "chi")}
            ket = {r_: qutip.Qobj(rng.integers(-3, 4, (n_ * n_, 1)) + 0j, dims=[[sub, sub], [1]], superrep=r_).to(fmt) for r_ in ("super", "choi", "chi")}
            for ra, rb in itertools.product(("super", "choi", "chi"), repeat=2):
                A_, B_, k_ = sup[ra], sup[rb], ket[rb]
                ops_ = {"A @ B": lambda: A_ @ B_, "A * B": lambda: A_ * B_, "A @ ket": lambda: A_ @ k_, "bra @ A": lambda: k_.dag() @ A_, "A + B": lambda: A_ + B_, "A - B": lambda: A_ - B_}
                rep.evaluations += 1
                rep.count("mixed-representations")
                for nm_, fn_ in ops_.items():
                    if nm_ == "bra @ A":
                        ok_expected = (rb == ra)
                    else:
                        ok_expected = (ra == rb)
                    try:
                        out_ = fn_()
                        raised = False
                    except (TypeError, ValueError):
                        raised = True
                    except Exception as e:
                        rep.violation(core.Violation("C02:mixed-representation-crash", f"{nm_} with representations {ra} / {rb} on {sub}: {type(e).__name__}: {e}"[:240], {"sub": sub, "reps": [ra, rb]}))
                        continue
                    if ok_expected and raised:
                        rep.violation(core.Violation(f"C02:same-representation-refused:{nm_}", f"{nm_} of two '{ra}' operands on {sub} ({fmt}) is refused", {"sub": sub, "rep": ra}))
                    elif not ok_expected and not raised:
                        rep.violation(core.Violation(f"C02:mixed-representations-accepted:{nm_}", f"{nm_} with operands in the '{ra}' and '{rb}' representations on {sub} ({fmt}) is accepted (result tagged {getattr(out_, 'superrep', None)!r}) although their labels differ", {"sub": sub, "reps": [ra, rb], "op": nm_}))
                    elif ok_expected and nm_ in ("A @ B", "A * B") and (out_.superrep != ra or np.abs(out_.full() - A_.full() @ B_.full()).max() > 1e-9):
                        rep.violation(core.Violation(f"C02:same-representation-product:{nm_}", f"{nm_} of two '{ra}' operands is not the matrix product tagged '{ra}'", {"sub": sub, "rep": ra}))
                for x_, y_ in ((A_._dims, B_._dims), (A_._dims[0], B_._dims[0]), (k_._dims, ket[ra]._dims)):
                    if (x_ != y_) == (x_ == y_):
                        rep.violation(core.Violation("C02:ne-not-negation-of-eq", f"labels {x_} and {y_} (representations {ra}, {rb}): == gives {x_ == y_} and != gives {x_ != y_}", {"sub": sub, "reps": [ra, rb]}))
    # integer-valued floats are accepted as dimensions: the labels they produce are the integer labels, for this object and for
    # every object made afterwards (spaces are interned)
    try:
        nf = int(rng.choice([23, 29, 31]))
        qf = qutip.Qobj(np.eye(2 * nf), dims=[[float(nf), 2.0], [float(nf), 2.0]])
        later = qutip.destroy(nf)
        rep.evaluations += 1
        rep.count("float-dims")
        flat_ = [x for obj_ in (qf, later) for side in obj_.dims for x in side]
        if not all(type(x) is int for x in flat_) or qf.dims != [[nf, 2], [nf, 2]] or later.dims != [[nf], [nf]]:
            rep.violation(core.Violation("C02:float-dims", f"after Qobj(..., dims=[[{float(nf)}, 2.0], [{float(nf)}, 2.0]]) the labels are {qf.dims} and destroy({nf}).dims is {later.dims} with entry types {sorted({type(x).__name__ for x in flat_})}", {"n": nf}))
        else:
            qutip.tensor(later, qutip.qeye(2)).ptrace(0)
            qutip.basis(nf, 1).dag() * later * qutip.basis(nf, 2)
    except Exception as e:
        rep.violation(core.Violation("C02:float-dims-raises", f"objects made after a Qobj with integer-valued float dims: {type(e).__name__}: {e}"[:240], {}))
    # matrix elements and overlaps follow the same rule as the products they stand for: <l|A|r> exists when bra * A * ket
    # does, <a|b> when bra * ket does
    for dl, dop, dr in (([2, 3], [[2, 3], [2, 3]], [2, 3]), ([6], [[6], [6]], [6]), ([6], [[2, 3], [2, 3]], [2, 3]), ([3, 2], [[2, 3], [2, 3]], [2, 3]), ([2, 3], [[6], [6]], [3, 2]),
                        ([2, 3], [[2, 3], [3, 2]], [3, 2]), ([2, 3], [[2, 3], [3, 2]], [2, 3])):
        vl = rng.integers(-3, 4, (6, 1)) + 1j * rng.integers(-3, 4, (6, 1))
        vr = rng.integers(-3, 4, (6, 1)) + 1j * rng.integers(-3, 4, (6, 1))
        Am = rng.integers(-3, 4, (6, 6)) + 1j * rng.integers(-3, 4, (6, 6))
        for fmt in ("dense", "csr"):
            kl, kr, Aq = qutip.Qobj(vl, dims=[dl, [1] * len(dl)]).to(fmt), qutip.Qobj(vr, dims=[dr, [1] * len(dr)]).to(fmt), qutip.Qobj(Am, dims=dop).to(fmt)
            rep.evaluations += 1
            rep.count("matrix-element-labels")
            for nm_, fn_, ref_fn, want_val in (("A.matrix_element(bra, ket)", lambda: Aq.matrix_element(kl.dag(), kr), lambda: kl.dag() * Aq * kr, (vl.conj().T @ Am @ vr)[0, 0]),
                                               ("A.matrix_element(ket, ket)", lambda: Aq.matrix_element(kl, kr), lambda: kl.dag() * Aq * kr, (vl.conj().T @ Am @ vr)[0, 0]),
                                               ("ket.overlap(ket)", lambda: kl.overlap(kr), lambda: kl.dag() * kr, (vl.conj().T @ vr)[0, 0]),
                                               ("bra.overlap(ket)", lambda: kl.dag().overlap(kr), lambda: kl.dag() * kr, (vl.conj().T @ vr)[0, 0])):
                try:
                    ref_fn()
                    composes = True
                except (TypeError, ValueError):
                    composes = False
                try:
                    got_ = fn_()
                    raised = False
                except (TypeError, ValueError):
                    raised = True
                if fmt == "dense":
                    lket_ = nm_ in ("A.matrix_element(ket, ket)", "ket.overlap(ket)")
                    ME_LINES.append(("C02.matrix_element " + json.dumps({"tidy": True, "A": dop, "l": [dl, [1] * len(dl)] if lket_ else [[1] * len(dl), dl], "r": [dr, [1] * len(dr)], "lket": lket_, "rket": True}),
                                     "overlap" if "overlap" in nm_ else "matrix_element", not raised, nm_))
                if composes and raised:
                    rep.violation(core.Violation(f"C02:matrix-element-refused:{nm_}", f"{nm_} with labels {kl.dims}, {Aq.dims}, {kr.dims} ({fmt}) is refused although the product it stands for is defined", {"dims": [dl, dop, dr]}))
                elif not composes and not raised:
                    rep.violation(core.Violation(f"C02:matrix-element-labels:{nm_}", f"{nm_} with labels {kl.dims}, {Aq.dims}, {kr.dims} ({fmt}) returns {got_} although the product it stands for is refused (the labels do not compose)", {"dims": [dl, dop, dr]}))
                elif composes and abs(got_ - want_val) > 1e-9 * (1 + abs(want_val)):
                    rep.violation(core.Violation(f"C02:matrix-element-value:{nm_}", f"{nm_} gives {got_}, NumPy gives {want_val}", {"dims": [dl, dop, dr]}))
    model = core.run_driver(lines)
    ndis, first = 0, None
    # acceptance of matrix elements / overlaps by the real objects against Qv.C02.matrixElementOk / overlapOk
    me_model = core.run_driver([x[0] for x in ME_LINES])
    for (line_, key_, accepted_, nm_), m_ in zip(ME_LINES, me_model):
        rep.count("matrix-element-correspondence")
        if not isinstance(m_, dict) or m_.get(key_) != accepted_:
            ndis += 1
            if first is None:
                first = {"line": line_, "call": nm_, "model": m_, "impl_accepts": accepted_}
    del ME_LINES[:]
    for (s, r), m in zip(specs, model[:len(specs)]):
        out = real_dims(s, r)
        realj = out if isinstance(out, dict) else out[0]
        flat = json.dumps(s)
        rep.case({"spec": s, "rep": r}, flat.count(",") >= 2 or flat.count("[") > 3)
        rep.count("type=" + str(realj.get("type", realj.get("error"))))
        if realj != m:
            ndis += 1
            if first is None:
                first = {"spec": s, "rep": r, "model": m, "impl": realj}
    for (a, b), m in zip(pairs, model[len(specs):]):
        ra, rb = real_dims(a), real_dims(b)
        if isinstance(ra, dict) or isinstance(rb, dict):
            want = {"error": "operand"}
        else:
            da, db = ra[1], rb[1]
            eq = bool(da == db)
            if eq and hash(da) != hash(db):
                rep.violation(core.Violation("C02:hash", f"equal Dimensions {a} / {b} hash differently", {"a": a, "b": b}))
            if eq != (da.as_list() == db.as_list() and da.superrep == db.superrep) and not (da.issuper):
                rep.violation(core.Violation("C02:eq", f"Dimensions equality {eq} disagrees with equality of the specifications {da.as_list()} / {db.as_list()}", {"a": a, "b": b}))
            try:
                c = da @ db
                if da.as_list()[1] != db.as_list()[0]:
                    rep.violation(core.Violation("C02:compose-labels", f"Dimensions {a} @ {b} accepted although the input labels {da.as_list()[1]} are not the output labels {db.as_list()[0]} (after earlier products of the same left operand)", {"a": a, "b": b}))
                mm = {"as_list": c.as_list(), "type": c.type, "shape": [int(c.shape[0]), int(c.shape[1])],
                      "issuper": bool(c.issuper), "superrep": c.superrep, "issquare": bool(c.issquare)}
                if da.shape[1] != db.shape[0]:
                    rep.violation(core.Violation("C02:compose-shape", f"{a} @ {b} accepted although shapes {da.shape} {db.shape} do not fit", {"a": a, "b": b}))
            except TypeError:
                mm = {"error": "TypeError"}
            except NotImplementedError:
                mm = {"error": "NotImplementedError"}
            want = {"eq": eq, "matmul": mm}
        rep.evaluations += 1
        if want != m:
            ndis += 1
            if first is None:
                first = {"a": a, "b": b, "model": m, "impl": want}
    with qutip.CoreOptions(auto_tidyup_dims=False):
        for (s, r), m in zip(specs, model[nbase:nbase + len(specs)]):
            out = real_dims(s, r)
            realj = out if isinstance(out, dict) else out[0]
            rep.evaluations += 1
            rep.count("untidy-type=" + str(realj.get("type", realj.get("error"))))
            if realj != m:
                ndis += 1
                if first is None:
                    first = {"spec": s, "rep": r, "auto_tidyup_dims": False, "model": m, "impl": realj}
            # the type is a function of the sizes only: a side of total size 1 is a trivial side however it is written
            if not isinstance(out, dict):
                d = out[1]
                one_to, one_from = int(d.shape[0]) == 1, int(d.shape[1]) == 1
                want_t = ("scalar" if one_to and one_from else ("operator-ket" if d.issuper else "ket") if one_from
                          else ("operator-bra" if d.issuper else "bra") if one_to else ("super" if d.issuper else "oper"))
                if d.type != want_t:
                    rep.violation(core.Violation("C02:untidy-type", f"with auto_tidyup_dims=False, Dimensions({s}) has type {d.type!r}, its shape {d.shape} makes it a {want_t!r}", {"spec": s, "rep": r}))
    rep.notes["correspondence_disagreements"] = ndis
    if ndis:
        rep.broken.append({"kind": "correspondence", "which": "C02.dims/matmul", "count": ndis, "first": first})
    # expression trees
    ntrees = 300 if tier == "quick" else 3000
    seen = set()
    for k in range(ntrees):
        trng = np.random.default_rng([seed, k])
        try:
            viol = run_tree(trng, tier, rep)
        except core.CaseTimeout:
            raise
        rep.evaluations += 1
        rep.nontrivial.add(core.chash(["tree", seed, k]))
        for sig, what, log in viol:
            if sig in seen:
                continue
            seen.add(sig)
            rep.violation(core.Violation("C02:" + sig, what, {"tree_seed": [seed, k], "last_steps": log}))
    if (ndis or not proved) and not rep.violations:
        rep.violation(core.Violation("C02:unverified", "model/proof no longer matches the code and no failing input was found",
                                     {"broken": rep.broken}, failing_input_found=False))
    return rep.finish()


if __name__ == "__main__":
    core.main(run, PID)
